"""sx.runner -- runs the obligations of one property check over all cores, replays counterexamples
against the plain library in a fresh interpreter, applies the known-findings file, writes the
evidence file and maps the outcome to the exit code.

exit 0 held / 1 violation (replayed, not a listed finding) / 2 inconclusive / 3 harness error
"""
from __future__ import annotations

import json
import multiprocessing as mp
import os
import subprocess
import sys
import tempfile
import time
import traceback
from typing import Any, Callable, Dict, List, Optional

ROOT = os.path.dirname(os.path.dirname(os.path.abspath(__file__)))
EVIDENCE_DIR = os.environ.get("SX_EVIDENCE_DIR") or os.path.join(ROOT, "evidence")      # (override: development runs on a scratch worktree only)
KNOWN_FINDINGS = os.path.join(ROOT, "known_findings.json")
REPLAY_DIR = os.path.join(EVIDENCE_DIR, "replay")

CHUNK_PATHS = 1500
CHUNK_SECONDS = 20.0


class Obligation:
    """One harness.  `harness(engine)` runs the real code on symbolic inputs and calls engine.check.
    `replay(witness) -> (reproduced, message)` runs the witness on the plain library.
    `key(witness) -> str` names the failing input class (for the known-findings file)."""

    def __init__(self, name: str, harness: Callable, bounds: str = "", replay: Optional[Callable] = None,
                 key: Optional[Callable] = None, functions: Optional[List[Any]] = None,
                 stubs: Optional[List[str]] = None, expect_reach: Optional[List[str]] = None,
                 query_timeout_ms: int = 30000, max_paths: int = 400000, group: str = "", mode: str = "incremental"):
        self.name = name
        self.harness = harness
        self.bounds = bounds
        self.replay = replay
        self.key = key
        self.functions = functions or []
        self.stubs = stubs or []
        self.expect_reach = expect_reach or []
        self.query_timeout_ms = query_timeout_ms
        self.max_paths = max_paths
        self.group = group or name
        self.mode = mode


_OBLIGATIONS: Dict[str, Obligation] = {}


def _worker(task):
    """explore a chunk: (obligation name, prefixes, seconds budget) -> summary dict"""
    from .engine import Engine
    name, prefixes, budget_s, chunk_paths = task
    ob = _OBLIGATIONS[name]
    eng = Engine(query_timeout_ms=ob.query_timeout_ms, max_paths=10 ** 9, max_seconds=budget_s, name=name, mode=ob.mode)
    t0 = time.time()
    open_prefixes: List[Any] = []
    err = None
    try:
        eng.deadline = time.time() + budget_s
        eng.worklist = list(prefixes)
        n0 = 0
        while eng.worklist:
            if eng.stats.paths - n0 >= chunk_paths or time.time() - t0 > CHUNK_SECONDS:
                open_prefixes = eng.worklist
                eng.worklist = []
                break
            prefix = eng.worklist.pop()
            eng._run_path(ob.harness, prefix)
    except BaseException as e:  # noqa
        err = "%s: %s\n%s" % (type(e).__name__, e, traceback.format_exc()[-2000:])
    distinct, seen = [], set()
    for v in eng.violations:
        try:
            k = (v.label, ob.key(v.witness, v.label) if ob.key else v.label)
        except Exception:
            k = (v.label, "?")
        if k in seen:
            continue
        seen.add(k)
        distinct.append(v)
    return {
        "name": name,
        "stats": eng.stats.to_json(),
        "violations": [v.to_json() for v in distinct[:50]],
        "n_violations": len(eng.violations),
        "inconclusive": eng.inconclusive,
        "reach": eng.reach,
        "check_labels": eng.check_labels,
        "samples": eng.samples,
        "open": open_prefixes,
        "error": err,
        "wall": time.time() - t0,
    }


def explore_all(obligations: List[Obligation], nproc: int, total_seconds: float, log=print) -> Dict[str, Dict[str, Any]]:
    global _OBLIGATIONS
    _OBLIGATIONS = {o.name: o for o in obligations}
    results: Dict[str, Dict[str, Any]] = {}
    for o in obligations:
        results[o.name] = {"stats": None, "violations": [], "n_violations": 0, "inconclusive": [], "reach": {},
                           "check_labels": {}, "samples": [], "errors": [], "wall": 0.0, "paths": 0}
    deadline = time.time() + total_seconds
    ctx = mp.get_context("fork")
    pending = [(o.name, [[]]) for o in obligations]
    from .engine import Stats
    agg = {o.name: Stats() for o in obligations}
    pool = ctx.Pool(processes=nproc)
    try:
        inflight = []   # (handle, name, n_prefixes, hard_deadline)
        outstanding = [0]

        def submit(name, prefixes, attempt=0):
            remaining = max(5.0, deadline - time.time())
            ob = _OBLIGATIONS[name]
            grace = 3.0 * ob.query_timeout_ms / 1000.0 + 60.0
            h = pool.apply_async(_worker, ((name, prefixes, remaining, CHUNK_PATHS),))
            # the task may wait in the pool's queue behind the tasks already submitted
            waves = 1 + (outstanding[0] + 1) // max(1, nproc)
            outstanding[0] += 1
            inflight.append((h, name, len(prefixes), time.time() + waves * (CHUNK_SECONDS + grace), prefixes, attempt))

        for name, pf in pending:
            submit(name, pf)
        while inflight:
            still = []
            progressed = False
            current, inflight = inflight, []
            for item in current:
                h, name, npf, hard, pfx, attempt = item
                if not h.ready():
                    if time.time() > hard:
                        progressed = True
                        outstanding[0] -= 1
                        if attempt < 1 and time.time() < deadline:
                            # one retry (in single prefixes): z3's behaviour on a hard query varies from run to run
                            for one in pfx:
                                submit(name, [one], attempt + 1)
                        else:
                            results[name]["inconclusive"].append(
                                "a worker exploring %d prefix(es) did not return in time (solver ignored its timeout, or the worker died)" % npf)
                    else:
                        still.append(item)
                    continue
                progressed = True
                outstanding[0] -= 1
                try:
                    r = h.get()
                except BaseException as e:  # noqa
                    results[name]["errors"].append("worker failed: %r" % (e,))
                    continue
                res = results[r["name"]]
                st = Stats()
                for k, v in r["stats"].items():
                    setattr(st, k, v)
                agg[r["name"]].add(st)
                if len(res["violations"]) < 400:
                    res["violations"].extend(r["violations"])
                res["n_violations"] += r["n_violations"]
                res["inconclusive"].extend(r["inconclusive"])
                for k, v in r["reach"].items():
                    res["reach"][k] = res["reach"].get(k, 0) + v
                for k, v in r["check_labels"].items():
                    cur = res["check_labels"].setdefault(k, [0, 0])
                    cur[0] += v[0]
                    cur[1] += v[1]
                if len(res["samples"]) < 4:
                    res["samples"].extend(r["samples"][:4 - len(res["samples"])])
                if r["error"]:
                    res["errors"].append(r["error"])
                res["wall"] += r["wall"]
                ob = _OBLIGATIONS[r["name"]]
                if r["open"]:
                    if time.time() > deadline:
                        res["inconclusive"].append("time budget exhausted with %d open prefixes" % len(r["open"]))
                    elif agg[r["name"]].paths > ob.max_paths:
                        res["inconclusive"].append("path budget (%d) exhausted with %d open prefixes" % (ob.max_paths, len(r["open"])))
                    else:
                        op = r["open"]
                        k = max(1, min(nproc, len(op)))
                        for i in range(k):
                            part = op[i::k]
                            if part:
                                submit(r["name"], part)
            inflight = still + inflight
            if not progressed:
                time.sleep(0.02)
    finally:
        pool.terminate()
        pool.join()
    for o in obligations:
        results[o.name]["stats"] = agg[o.name].to_json()
    return results


# --------------------------------------------------------------------------- known findings
def load_known_findings() -> Dict[str, Any]:
    if not os.path.exists(KNOWN_FINDINGS):
        return {"findings": [], "fixed": []}
    with open(KNOWN_FINDINGS) as fp:
        return json.load(fp)


# --------------------------------------------------------------------------- replay
def replay_subprocess(check_module: str, obligation: str, witness: Dict[str, Any], replay_path: str, tier: str = "quick"):
    """Run `python -m checks.replay` in a fresh interpreter on the plain (unrewritten) library."""
    os.makedirs(os.path.dirname(replay_path), exist_ok=True)
    with open(replay_path, "w") as fp:
        json.dump({"module": check_module, "obligation": obligation, "tier": tier, "witness": witness}, fp, indent=1, default=str)
    env = dict(os.environ)
    env["PYTHONPATH"] = ROOT + os.pathsep + os.environ.get("SX_REPO_SRC", "/repo/src")
    env.pop("SX_ACTIVE", None)
    p = subprocess.run([sys.executable, os.path.join(ROOT, "checks", "replay.py"), replay_path],
                       capture_output=True, text=True, env=env, timeout=600)
    out = (p.stdout or "") + (p.stderr or "")
    return p.returncode, out.strip()[-3000:]


def run_check(prop_id: str, level: str, tier: str, check_module: str, obligations: List[Obligation],
              explanation: str, assumptions: List[str], outside: List[str], seed: int = 0,
              nproc: Optional[int] = None, total_seconds: float = 600.0, extra_coverage: Optional[Dict[str, Any]] = None,
              post: Optional[Callable] = None) -> int:
    from . import loader
    t0 = time.time()
    nproc = nproc or min(16, os.cpu_count() or 4)
    print("[%s] tier=%s obligations=%d nproc=%d" % (prop_id, tier, len(obligations), nproc), flush=True)
    results = explore_all(obligations, nproc, total_seconds)
    known = load_known_findings()
    known_here = [f for f in known.get("findings", []) if f.get("property") == prop_id]

    harness_errors: List[str] = []
    inconclusive: List[str] = []
    confirmed: List[Dict[str, Any]] = []
    known_hits: Dict[str, Dict[str, Any]] = {}
    unreproduced: List[Dict[str, Any]] = []
    total = {"paths": 0, "queries": 0, "solver_s": 0.0, "checks": 0, "checks_unsat": 0, "checks_sat": 0,
             "checks_trivial": 0, "decisions": 0, "paths_ok": 0, "paths_aborted": 0, "paths_inconclusive": 0,
             "paths_exception": 0, "unknown": 0}
    per_ob = []
    samples = []
    reach_missing = []
    n_replayed = 0
    for ob in obligations:
        r = results[ob.name]
        st = r["stats"]
        for k in total:
            total[k] += st.get(k, 0)
        for e in r["errors"]:
            harness_errors.append("%s: %s" % (ob.name, e))
        for msg in r["inconclusive"]:
            inconclusive.append("%s: %s" % (ob.name, msg))
        if st["paths_inconclusive"] and not r["inconclusive"]:
            inconclusive.append("%s: %d inconclusive paths" % (ob.name, st["paths_inconclusive"]))
        for lab in ob.expect_reach:
            if r["reach"].get(lab, 0) == 0:
                reach_missing.append("%s: assertion '%s' was never reached (vacuous harness?)" % (ob.name, lab))
        per_ob.append({"name": ob.name, "bounds": ob.bounds, "paths": st["paths"], "queries": st["queries"],
                       "solver_s": st["solver_s"], "assertions": r["check_labels"], "reached": r["reach"],
                       "violation_candidates": r["n_violations"]})
        if r["samples"] and len(samples) < 8:
            samples.append({"obligation": ob.name, "bounds": ob.bounds, "path": r["samples"][0]})
        # ---- triage violation candidates
        seen_keys = set()
        for v in r["violations"]:
            if v["label"] == "harness-exception":
                harness_errors.append("%s: %s" % (ob.name, v["detail"][-1200:]))
                continue
            key = None
            try:
                key = ob.key(v["witness"], v["label"]) if ob.key else v["label"]
            except Exception as e:
                key = "%s (key error %s)" % (v["label"], e)
            if (v["label"], key) in seen_keys:
                continue
            seen_keys.add((v["label"], key))
            if len(seen_keys) > 12:
                break
            rp = os.path.join(REPLAY_DIR, "%s_%s_%d.json" % (prop_id, _slug(ob.name), len(seen_keys)))
            n_replayed += 1
            if ob.replay is None:
                unreproduced.append({"obligation": ob.name, "label": v["label"], "witness": v["witness"], "why": "no replay function"})
                continue
            rc, out = replay_subprocess(check_module, ob.name, {"label": v["label"], **v["witness"]}, rp, tier)
            if rc == 10:   # reproduced
                entry = {"obligation": ob.name, "label": v["label"], "key": key, "witness": v["witness"],
                         "replay": rp, "replay_output": out[-600:]}
                hit = None
                for f in known_here:
                    if f.get("key") == key:
                        hit = f
                        break
                if hit is not None:
                    known_hits.setdefault(key, {"finding": hit, "entry": entry})
                else:
                    confirmed.append(entry)
            elif rc == 0:
                unreproduced.append({"obligation": ob.name, "label": v["label"], "witness": v["witness"],
                                     "why": "model did not reproduce on the plain library: " + out[-400:]})
            else:
                harness_errors.append("%s: replay crashed (rc=%d): %s" % (ob.name, rc, out[-800:]))

    wall = time.time() - t0
    status = "held"
    code = 0
    if harness_errors:
        status, code = "harness-error", 3
    elif confirmed:
        status, code = "violation", 1
    elif inconclusive or unreproduced or reach_missing:
        status, code = "inconclusive", 2

    for key, kh in known_hits.items():
        print("KNOWN-FINDING: property=%s %s" % (prop_id, kh["finding"].get("what", key)))
    for c in confirmed:
        print("VIOLATION property=%s replay=%s" % (prop_id, c["replay"]))
        print("  obligation=%s label=%s key=%s" % (c["obligation"], c["label"], c["key"]))
        print("  " + c["replay_output"].replace("\n", "\n  ")[-500:])
    for m in harness_errors[:10]:
        print("HARNESS-ERROR: " + m[-1500:])
    for m in (inconclusive + reach_missing)[:10]:
        print("INCONCLUSIVE: " + m)
    for u in unreproduced[:10]:
        print("INCONCLUSIVE (unreproduced model): %s %s %s" % (u["obligation"], u["label"], u["why"][-300:]))

    functions = []
    seenf = set()
    for ob in obligations:
        for f in loader.functions_fingerprint(ob.functions):
            if f not in seenf:
                seenf.add(f)
                functions.append(f)
    stubs = []
    for ob in obligations:
        for s in ob.stubs:
            if s not in stubs:
                stubs.append(s)

    coverage = {
        "explanation": explanation,
        "evaluations": total["paths"],
        "distinct_nontrivial": total["paths_ok"],
        "rule": "one evaluation = one feasible path of the real code under a distinct solver-derived path condition; "
                "non-trivial = the path ran to the end of the harness (not aborted as infeasible, not inconclusive)",
        "exhaustive": code in (0, 1) and not inconclusive,
        "obligations": len(obligations),
        "discharged": sum(1 for ob in obligations if not results[ob.name]["n_violations"] and not results[ob.name]["inconclusive"]),
        "solver": {"queries": total["queries"], "solver_s": round(total["solver_s"], 2),
                   "assertion_queries_unsat": total["checks_unsat"], "assertion_queries_sat": total["checks_sat"],
                   "assertions_trivially_true": total["checks_trivial"], "unknown": total["unknown"],
                   "branch_decisions": total["decisions"]},
        "paths": {k: total[k] for k in ("paths", "paths_ok", "paths_aborted", "paths_inconclusive", "paths_exception")},
        "functions_encoded": functions,
        "source_modules": {k: v for k, v in sorted(loader.SOURCE_HASHES.items()) if any(k in f for f in functions)} or
                          dict(list(sorted(loader.SOURCE_HASHES.items()))[:0]),
        "rewrite_sites": loader.REWRITE_SITES,
        "stubs_and_axioms": stubs,
        "per_obligation": per_ob,
        "samples": samples or [{"note": "no completed path"}],
        "outside_the_claim": outside,
        "status": status,
        "known_findings_hit": [{"key": k, "what": v["finding"].get("what")} for k, v in known_hits.items()],
        "violations_confirmed": [{k: c[k] for k in ("obligation", "label", "key", "witness", "replay")} for c in confirmed],
        "unreproduced_models": unreproduced[:10],
        "inconclusive": (inconclusive + reach_missing)[:20],
        "counterexamples_replayed": n_replayed,
        "nproc": nproc,
    }
    if level == "model_checking":
        coverage["states"] = max(1, total["paths"])
        coverage["transitions"] = max(1, total["decisions"] + total["paths"])
        # the reference model and the real implementation run side by side on every path: a completed path is a model trace
        # whose every step was compared with the implementation (symbolically, for all values of the path condition)
        coverage["traces_validated_against_impl"] = total["paths_ok"]
        coverage["traces_note"] = ("model and implementation are executed together: each completed path is one model trace compared step by step "
                                   "with the real code under the solver; %d solver counterexamples were additionally replayed on the plain library" % n_replayed)
    if level == "translation_validation":
        coverage["programs"] = max(1, len(obligations))
        coverage["disagreements_checked"] = n_replayed
    if extra_coverage:
        coverage.update(extra_coverage)
    evidence = {
        "property_id": prop_id,
        "tier": tier,
        "seed": seed,
        "level": level,
        "coverage": coverage,
        "assumptions": assumptions,
        "wall_s": round(wall, 2),
        "violations": len(confirmed),
    }
    os.makedirs(EVIDENCE_DIR, exist_ok=True)
    with open(os.path.join(EVIDENCE_DIR, prop_id + ".json"), "w") as fp:
        json.dump(evidence, fp, indent=1, default=str)
    print("[%s] %s: paths=%d queries=%d solver=%.1fs wall=%.1fs exit=%d" % (
        prop_id, status, total["paths"], total["queries"], total["solver_s"], wall, code), flush=True)
    return code


def _slug(s: str) -> str:
    return "".join(c if c.isalnum() else "_" for c in s)[:60]
