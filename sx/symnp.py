"""sx.symnp -- a pure-Python stand-in for the part of numpy the anchored pyimpspec code uses, over
elements that are either concrete numpy scalars or symbolic values (SVal/SBool/SInt).

Every public function falls through to real numpy when no SArr / symbolic value is involved and no
engine is active.  Anything not modelled raises SxUnsupported (-> inconclusive), never a guess.
"""
from __future__ import annotations

import math
import warnings
from fractions import Fraction
from typing import Any, List, Sequence, Tuple

import numpy as np
import z3

from . import engine as _eng
from .engine import SxUnsupported
from .values import (SBool, SInt, SVal, is_symbolic, s_abs, s_fun, s_pow, s_sqrt, pi_val, s_not, ZERO, ONE, zt,
                     frac_of, isc)

_BOOL = np.dtype(bool)
_INT = np.dtype(np.int64)
_FLOAT = np.dtype(np.float64)
_CPLX = np.dtype(np.complex128)


def _dt(dtype) -> np.dtype:
    if dtype is None:
        return _FLOAT
    try:
        return np.dtype(dtype)
    except TypeError:
        return np.dtype(object)


def _elem_dtype(x) -> np.dtype:
    if isinstance(x, SBool):
        return _BOOL
    if isinstance(x, SInt):
        return _INT
    if isinstance(x, SVal):
        return _FLOAT if x.is_real() else _CPLX
    if type(x).__name__ == "CInf":
        return _CPLX
    if isinstance(x, (bool, np.bool_)):
        return _BOOL
    if isinstance(x, (int, np.integer)):
        return _INT
    if isinstance(x, (float, np.floating, Fraction)):
        return _FLOAT
    if isinstance(x, (complex, np.complexfloating)):
        return _CPLX
    return np.dtype(object)


def _cast(x, dt: np.dtype):
    """cast one element to dtype dt (concrete -> numpy scalar; symbolic stays symbolic)"""
    if type(x).__name__ == "CInf":
        return x
    if is_symbolic(x):
        if dt == _BOOL:
            if isinstance(x, SBool):
                return x
            if isinstance(x, SVal):
                return s_not(x.is_zero())
            return x != 0
        if dt.kind in "fc":
            v = SVal.lift(x, npy=True)
            return v.with_npy(True)
        if dt.kind in "iu":
            if isinstance(x, (SInt, SBool)):
                return x if isinstance(x, SInt) else SInt(z3.If(x.term, 1, 0))
            raise SxUnsupported("cast of a symbolic real to an integer dtype")
        return x
    if dt.kind == "O":
        return x
    with warnings.catch_warnings():
        warnings.simplefilter("ignore")
        if isinstance(x, Fraction):
            x = float(x)
        return dt.type(x)


class SArr:
    """1-D or 2-D array with a concrete shape."""
    _sx_symbolic = True
    __array_priority__ = 2000
    __hash__ = None

    def __init__(self, flat: List[Any], shape: Tuple[int, ...], dtype=None):
        self.flat = flat
        self.shape = tuple(int(s) for s in shape)
        n = 1
        for s in self.shape:
            n *= s
        if n != len(flat):
            raise ValueError("shape %r does not match %d elements" % (shape, len(flat)))
        if dtype is None:
            dtype = _result_dtype([_elem_dtype(x) for x in flat]) if flat else _FLOAT
        self.dtype = _dt(dtype)

    # ---- basic protocol
    @property
    def ndim(self):
        return len(self.shape)

    @property
    def size(self):
        return len(self.flat)

    def __len__(self):
        if not self.shape:
            raise TypeError("len() of unsized object")
        return self.shape[0]

    def __iter__(self):
        if self.ndim == 1:
            return iter(self.flat)
        return iter([self[i] for i in range(self.shape[0])])

    def __repr__(self):
        return "SArr(shape=%r, dtype=%s, %r)" % (self.shape, self.dtype, self.flat[:6])

    def __format__(self, spec):
        return repr(self)

    def copy(self):
        return SArr(list(self.flat), self.shape, self.dtype)

    def tolist(self):
        if self.ndim == 1:
            return list(self.flat)
        m = self.shape[1]
        return [self.flat[i * m:(i + 1) * m] for i in range(self.shape[0])]

    def astype(self, dtype):
        dt = _dt(dtype)
        return SArr([_cast(x, dt) for x in self.flat], self.shape, dt)

    def flatten(self):
        return SArr(list(self.flat), (len(self.flat),), self.dtype)

    ravel = flatten

    def reshape(self, *shape):
        if len(shape) == 1 and isinstance(shape[0], (tuple, list)):
            shape = tuple(shape[0])
        shape = list(shape)
        if -1 in shape:
            k = 1
            for s in shape:
                if s != -1:
                    k *= s
            shape[shape.index(-1)] = len(self.flat) // k
        return SArr(list(self.flat), tuple(shape), self.dtype)

    @property
    def T(self):
        if self.ndim == 1:
            return self
        n, m = self.shape
        return SArr([self.flat[i * m + j] for j in range(m) for i in range(n)], (m, n), self.dtype)

    def transpose(self):
        return self.T

    @property
    def real(self):
        return _map1(self, _real, _FLOAT if self.dtype.kind == "c" else self.dtype)

    @real.setter
    def real(self, value):
        self._set_part(value, True)

    @property
    def imag(self):
        return _map1(self, _imag, _FLOAT if self.dtype.kind == "c" else self.dtype)

    @imag.setter
    def imag(self, value):
        self._set_part(value, False)

    def _set_part(self, value, real_part: bool):
        """arr.real = v / arr.imag = v (in place, element-wise; a scalar is broadcast)"""
        v = asarr(value)
        vals = list(v.flat) if hasattr(v, "flat") and getattr(v, "shape", ()) != () else [v] * len(self.flat)
        if len(vals) != len(self.flat):
            raise ValueError("could not broadcast input array into shape %r" % (self.shape,))
        if not real_part and self.dtype.kind != "c":
            raise TypeError("array does not have imaginary part to set")
        j = SVal(ZERO, ONE, npy=True)
        for i, x in enumerate(vals):
            old = self.flat[i]
            if self.dtype.kind != "c":
                self.flat[i] = _cast(x, self.dtype)
            elif real_part:
                self.flat[i] = _add(_cast(x, _FLOAT), _mul(_imag(old), j))
            else:
                self.flat[i] = _add(_real(old), _mul(_cast(x, _FLOAT), j))

    def conj(self):
        return _map1(self, lambda x: x.conjugate() if hasattr(x, "conjugate") else x, self.dtype)

    conjugate = conj

    # ---- reductions
    def all(self, axis=None):
        if axis is not None:
            raise SxUnsupported("all(axis)")
        for x in self.flat:
            if not x:
                return False
        return True

    def any(self, axis=None):
        if axis is not None:
            raise SxUnsupported("any(axis)")
        for x in self.flat:
            if x:
                return True
        return False

    def sum(self, axis=None):
        return sum_(self, axis=axis)

    def mean(self, axis=None):
        return mean(self, axis=axis)

    def min(self, axis=None):
        return min_(self)

    def max(self, axis=None):
        return max_(self)

    def dot(self, other):
        return dot(self, other)

    def __matmul__(self, other):
        return dot(self, other)

    def __rmatmul__(self, other):
        return dot(other, self)

    # ---- indexing
    def _index1(self, key, n) -> Any:
        """normalise a 1-D key over an axis of length n -> int or list of ints"""
        if isinstance(key, SInt):
            key = int(key)
        if isinstance(key, (int, np.integer)):
            k = int(key)
            if k < 0:
                k += n
            if not 0 <= k < n:
                raise IndexError("index %d is out of bounds for axis with size %d" % (key, n))
            return k
        if isinstance(key, slice):
            return list(range(*key.indices(n)))
        if isinstance(key, SArr):
            if key.dtype == _BOOL:
                if key.size != n:
                    raise IndexError("boolean index did not match")
                return [i for i, b in enumerate(key.flat) if b]
            return [self._index1(k, n) for k in key.flat]
        if isinstance(key, np.ndarray):
            if key.dtype == bool:
                if key.size != n:
                    raise IndexError("boolean index did not match")
                return [i for i, b in enumerate(key.tolist()) if b]
            return [self._index1(k, n) for k in key.tolist()]
        if isinstance(key, (list, tuple)):
            if key and all(isinstance(k, (bool, np.bool_, SBool)) for k in key):
                return [i for i, b in enumerate(key) if b]
            return [self._index1(k, n) for k in key]
        raise SxUnsupported("index of type %s" % type(key).__name__)

    def __getitem__(self, key):
        if self.ndim == 1:
            if isinstance(key, tuple):
                if len(key) != 1:
                    raise IndexError("too many indices for array")
                key = key[0]
            k = self._index1(key, self.shape[0])
            if isinstance(k, int):
                return self.flat[k]
            return SArr([self.flat[i] for i in k], (len(k),), self.dtype)
        n, m = self.shape
        if not isinstance(key, tuple):
            key = (key, slice(None))
        if len(key) != 2:
            raise IndexError("too many indices for array")
        r, c = self._index1(key[0], n), self._index1(key[1], m)
        if isinstance(r, int) and isinstance(c, int):
            return self.flat[r * m + c]
        if isinstance(r, int):
            return SArr([self.flat[r * m + j] for j in c], (len(c),), self.dtype)
        if isinstance(c, int):
            return SArr([self.flat[i * m + c] for i in r], (len(r),), self.dtype)
        return SArr([self.flat[i * m + j] for i in r for j in c], (len(r), len(c)), self.dtype)

    def __setitem__(self, key, value):
        if self.ndim == 1:
            if isinstance(key, tuple):
                key = key[0]
            k = self._index1(key, self.shape[0])
            if isinstance(k, int):
                self.flat[k] = _cast(_scalar(value), self.dtype)
                return
            vals = _broadcast_to_list(value, len(k))
            for i, v in zip(k, vals):
                self.flat[i] = _cast(v, self.dtype)
            return
        n, m = self.shape
        if not isinstance(key, tuple):
            key = (key, slice(None))
        r, c = self._index1(key[0], n), self._index1(key[1], m)
        if isinstance(r, int) and isinstance(c, int):
            self.flat[r * m + c] = _cast(_scalar(value), self.dtype)
            return
        if isinstance(r, int):
            vals = _broadcast_to_list(value, len(c))
            for j, v in zip(c, vals):
                self.flat[r * m + j] = _cast(v, self.dtype)
            return
        if isinstance(c, int):
            vals = _broadcast_to_list(value, len(r))
            for i, v in zip(r, vals):
                self.flat[i * m + c] = _cast(v, self.dtype)
            return
        v = asarr(value)
        if isinstance(v, SArr) and v.shape == (len(r), len(c)):
            it = iter(v.flat)
            for i in r:
                for j in c:
                    self.flat[i * m + j] = _cast(next(it), self.dtype)
            return
        if not isinstance(v, SArr):
            for i in r:
                for j in c:
                    self.flat[i * m + j] = _cast(v, self.dtype)
            return
        raise SxUnsupported("2-D block assignment with broadcasting")

    # ---- arithmetic
    def __add__(self, o):
        return _binop(self, o, _add)

    def __radd__(self, o):
        return _binop(o, self, _add)

    def __iadd__(self, o):
        r = _binop(self, o, _add)
        return _inplace(self, r)

    def __sub__(self, o):
        return _binop(self, o, _sub)

    def __rsub__(self, o):
        return _binop(o, self, _sub)

    def __isub__(self, o):
        return _inplace(self, _binop(self, o, _sub))

    def __mul__(self, o):
        return _binop(self, o, _mul)

    def __rmul__(self, o):
        return _binop(o, self, _mul)

    def __imul__(self, o):
        return _inplace(self, _binop(self, o, _mul))

    def __truediv__(self, o):
        return _binop(self, o, _div, force_float=True)

    def __rtruediv__(self, o):
        return _binop(o, self, _div, force_float=True)

    def __itruediv__(self, o):
        return _inplace(self, _binop(self, o, _div, force_float=True))

    def __pow__(self, o):
        return _binop(self, o, _pow)

    def __rpow__(self, o):
        return _binop(o, self, _pow)

    def __neg__(self):
        return _map1(self, lambda x: -x, self.dtype)

    def __pos__(self):
        return self

    def __abs__(self):
        return abs_(self)

    def __invert__(self):
        return _map1(self, lambda x: (~x if isinstance(x, SBool) else np.bool_(not x)), _BOOL)

    def __and__(self, o):
        return _binop(self, o, lambda a, b: a & b, out=_BOOL)

    def __or__(self, o):
        return _binop(self, o, lambda a, b: a | b, out=_BOOL)

    def __eq__(self, o):
        return _binop(self, o, _eq, out=_BOOL)

    def __ne__(self, o):
        return _binop(self, o, lambda a, b: s_not(_eq(a, b)) if is_symbolic(a) or is_symbolic(b) else np.bool_(a != b), out=_BOOL)

    def __lt__(self, o):
        return _binop(self, o, lambda a, b: a < b, out=_BOOL)

    def __le__(self, o):
        return _binop(self, o, lambda a, b: a <= b, out=_BOOL)

    def __gt__(self, o):
        return _binop(self, o, lambda a, b: a > b, out=_BOOL)

    def __ge__(self, o):
        return _binop(self, o, lambda a, b: a >= b, out=_BOOL)

    def __bool__(self):
        if self.size != 1:
            raise ValueError("The truth value of an array with more than one element is ambiguous. Use a.any() or a.all()")
        return bool(self.flat[0])


# --------------------------------------------------------------------------- element operations
def _np_scalar(x):
    if isinstance(x, (bool, int, float, complex)) and not isinstance(x, np.generic):
        if isinstance(x, bool):
            return np.bool_(x)
        if isinstance(x, int):
            return np.int64(x)
        if isinstance(x, float):
            return np.float64(x)
        return np.complex128(x)
    if isinstance(x, Fraction):
        return np.float64(float(x))
    return x


def _num(x):
    """prepare one operand for symbolic arithmetic"""
    if type(x).__name__ == "CInf":
        return x
    if isinstance(x, SVal):
        return x.with_npy(True)
    if isinstance(x, (SInt, SBool)):
        return SVal.lift(x, npy=True)
    return x


def _arith(a, b, pyop, npop):
    if is_symbolic(a) or is_symbolic(b):
        a, b = _num(a), _num(b)
        r = pyop(a, b)
        if r is NotImplemented:
            raise SxUnsupported("operand types %s, %s" % (type(a).__name__, type(b).__name__))
        return r
    with warnings.catch_warnings():
        warnings.simplefilter("ignore")
        with np.errstate(all="ignore"):
            return npop(_np_scalar(a), _np_scalar(b))


def _add(a, b):
    return _arith(a, b, lambda x, y: x + y, np.add)


def _sub(a, b):
    return _arith(a, b, lambda x, y: x - y, np.subtract)


def _mul(a, b):
    return _arith(a, b, lambda x, y: x * y, np.multiply)


def _div(a, b):
    return _arith(a, b, lambda x, y: x / y, np.true_divide)


def _pow(a, b):
    return _arith(a, b, lambda x, y: s_pow(x, y), np.power)


def _eq(a, b):
    if is_symbolic(a) or is_symbolic(b):
        if isinstance(a, SBool) or isinstance(b, SBool):
            r = (a == b)
        else:
            r = (_num(a) == _num(b))
        if r is NotImplemented:
            return np.bool_(False)
        return r if is_symbolic(r) else np.bool_(r)
    return np.bool_(a == b)


def _real(x):
    if isinstance(x, SVal):
        return x.real
    if is_symbolic(x):
        return x
    return np.real(x)


def _imag(x):
    if isinstance(x, SVal):
        return x.imag
    if is_symbolic(x):
        return SVal(ZERO, npy=True)
    return np.imag(x)


def _result_dtype(dts: Sequence[np.dtype]) -> np.dtype:
    dts = [d for d in dts]
    if not dts:
        return _FLOAT
    if any(d.kind == "O" for d in dts):
        return np.dtype(object)
    return np.result_type(*dts)


# --------------------------------------------------------------------------- helpers
def is_arr(x) -> bool:
    return isinstance(x, SArr)


def asarr(x):
    """ndarray/list -> SArr; scalars unchanged"""
    if isinstance(x, SArr):
        return x
    if isinstance(x, np.ndarray):
        if x.ndim == 0:
            return x[()]
        if x.ndim > 2:
            raise SxUnsupported("arrays with more than two dimensions")
        return SArr([x.dtype.type(v) if x.dtype.kind != "O" else v for v in x.ravel().tolist()], x.shape, x.dtype)
    if isinstance(x, (list, tuple)):
        return array(x)
    return x


def _scalar(x):
    if isinstance(x, SArr):
        if x.size != 1:
            raise ValueError("setting an array element with a sequence.")
        return x.flat[0]
    if isinstance(x, np.ndarray):
        if x.size != 1:
            raise ValueError("setting an array element with a sequence.")
        return x.ravel()[0]
    return x


def _broadcast_to_list(value, n) -> List[Any]:
    v = asarr(value)
    if isinstance(v, SArr):
        if v.ndim != 1:
            raise SxUnsupported("assignment of a 2-D value to a 1-D selection")
        if v.size == n:
            return list(v.flat)
        if v.size == 1:
            return [v.flat[0]] * n
        raise ValueError("shape mismatch: value array of shape %r could not be broadcast to indexing result of shape (%d,)" % (v.shape, n))
    return [v] * n


def _map1(a: SArr, fn, dtype) -> SArr:
    return SArr([fn(x) for x in a.flat], a.shape, dtype)


def _bshape(s1, s2):
    out = []
    l1, l2 = list(s1), list(s2)
    while len(l1) < len(l2):
        l1.insert(0, 1)
    while len(l2) < len(l1):
        l2.insert(0, 1)
    for x, y in zip(l1, l2):
        if x == y or y == 1:
            out.append(x)
        elif x == 1:
            out.append(y)
        else:
            raise ValueError("operands could not be broadcast together with shapes %r %r" % (s1, s2))
    return tuple(out), tuple(l1), tuple(l2)


def _bget(a: SArr, padded_shape, idx):
    """element of a at broadcast index idx"""
    k = 0
    for s, i in zip(padded_shape, idx):
        k = k * s + (0 if s == 1 else i)
    return a.flat[k]


def _binop(a, b, fn, out=None, force_float=False):
    a, b = asarr(a), asarr(b)
    if isinstance(a, SArr) and isinstance(b, SArr):
        if a.shape == b.shape:
            flat = [fn(x, y) for x, y in zip(a.flat, b.flat)]
            shape = a.shape
        else:
            shape, pa, pb = _bshape(a.shape, b.shape)
            flat = []
            if len(shape) == 1:
                for i in range(shape[0]):
                    flat.append(fn(_bget(a, pa, (i,)), _bget(b, pb, (i,))))
            else:
                for i in range(shape[0]):
                    for j in range(shape[1]):
                        flat.append(fn(_bget(a, pa, (i, j)), _bget(b, pb, (i, j))))
        dts = [a.dtype, b.dtype]
    elif isinstance(a, SArr):
        if isinstance(b, str) or b is None:
            return NotImplemented
        flat = [fn(x, b) for x in a.flat]
        shape = a.shape
        dts = [a.dtype, _weak_dtype(b, a.dtype)]
    elif isinstance(b, SArr):
        if isinstance(a, str) or a is None:
            return NotImplemented
        flat = [fn(a, y) for y in b.flat]
        shape = b.shape
        dts = [_weak_dtype(a, b.dtype), b.dtype]
    else:
        return fn(a, b)
    if out is not None:
        dt = out
    else:
        dt = _result_dtype(dts)
        if force_float and dt.kind in "biu":
            dt = _FLOAT
        if dt.kind in "fiub" and any(isinstance(x, SVal) and not x.is_real() for x in flat):
            dt = _CPLX
        if dt.kind in "fiub" and any(isinstance(x, (complex, np.complexfloating)) for x in flat):
            dt = _CPLX
    return SArr([_cast(x, dt) if dt.kind != "O" else x for x in flat], shape, dt)


def _weak_dtype(x, other: np.dtype) -> np.dtype:
    """python scalars are 'weak' in numpy 2 promotion"""
    d = _elem_dtype(x)
    if isinstance(x, (np.generic,)):
        return d
    if d.kind == "b":
        return other
    if d.kind in "iu":
        return other if other.kind in "iufc" else d
    if d.kind == "f":
        return other if other.kind in "fc" else d
    if d.kind == "c":
        return _CPLX
    return d


def _inplace(a: SArr, r):
    if not isinstance(r, SArr) or r.shape != a.shape:
        raise ValueError("non-broadcastable output operand")
    if a.dtype.kind in "fiub" and r.dtype.kind == "c":
        raise TypeError("Cannot cast ufunc output from dtype('complex128') to dtype('%s') with casting rule 'same_kind'" % a.dtype)
    a.flat[:] = [_cast(x, a.dtype) for x in r.flat]
    return a


def _sym_args(*xs) -> bool:
    for x in xs:
        if is_symbolic(x):
            return True
        if isinstance(x, (list, tuple)):
            if _sym_args(*x):
                return True
    return False


def _use_shim(*xs) -> bool:
    return _eng.active() or _sym_args(*xs)


# --------------------------------------------------------------------------- constructors
def zeros(shape, dtype=float, **kw):
    if not _use_shim():
        return np.zeros(shape, dtype=dtype, **kw)
    dt = _dt(dtype)
    if isinstance(shape, (int, np.integer, SInt)):
        shape = (int(shape),)
    shape = tuple(int(s) for s in shape)
    if len(shape) > 2:
        raise SxUnsupported("zeros with >2 dims")
    n = 1
    for s in shape:
        n *= s
    return SArr([_cast(0, dt) for _ in range(n)], shape, dt)


def ones(shape, dtype=float, **kw):
    if not _use_shim():
        return np.ones(shape, dtype=dtype, **kw)
    z = zeros(shape, dtype)
    z.flat[:] = [_cast(1, z.dtype) for _ in z.flat]
    return z


def full(shape, fill_value, dtype=None, **kw):
    if not _use_shim(fill_value):
        return np.full(shape, fill_value, dtype=dtype, **kw)
    dt = _dt(dtype) if dtype is not None else _elem_dtype(fill_value)
    z = zeros(shape, dt)
    z.flat[:] = [_cast(fill_value, dt) for _ in z.flat]
    return z


def array(obj, dtype=None, **kw):
    if isinstance(obj, SArr):
        return obj.astype(dtype) if dtype is not None else obj.copy()
    if not _use_shim(obj):
        return np.array(obj, dtype=dtype, **kw)
    if isinstance(obj, np.ndarray):
        a = asarr(obj)
        if not isinstance(a, SArr):
            return a
        return a.astype(dtype) if dtype is not None else a
    if isinstance(obj, (list, tuple)):
        rows = list(obj)
        if rows and isinstance(rows[0], (list, tuple, SArr, np.ndarray)):
            rr = [list(r.flat) if isinstance(r, SArr) else list(r) for r in rows]
            m = len(rr[0])
            if any(len(r) != m for r in rr):
                raise ValueError("inhomogeneous shape")
            flat = [x for r in rr for x in r]
            shape = (len(rr), m)
        else:
            flat, shape = rows, (len(rows),)
        dt = _dt(dtype) if dtype is not None else _result_dtype([_elem_dtype(x) for x in flat])
        return SArr([_cast(x, dt) for x in flat], shape, dt)
    if is_symbolic(obj):
        return obj
    return np.array(obj, dtype=dtype, **kw)


def asarray(obj, dtype=None, **kw):
    if isinstance(obj, SArr):
        return obj if dtype is None else obj.astype(dtype)
    return array(obj, dtype=dtype, **kw)


def fromiter(it, dtype, count=-1):
    items = list(it)
    if not _use_shim(items):
        return np.fromiter(items, dtype=dtype, count=count)
    dt = _dt(dtype)
    return SArr([_cast(x, dt) for x in items], (len(items),), dt)


def concatenate(arrs, axis=0, **kw):
    arrs = list(arrs)
    if not _use_shim(arrs):
        return np.concatenate(arrs, axis=axis, **kw)
    parts = [asarr(a) for a in arrs]
    if any(not isinstance(p, SArr) for p in parts):
        raise ValueError("zero-dimensional arrays cannot be concatenated")
    if all(p.ndim == 1 for p in parts):
        flat = [x for p in parts for x in p.flat]
        dt = _result_dtype([p.dtype for p in parts])
        return SArr([_cast(x, dt) for x in flat], (len(flat),), dt)
    if axis == 0 and all(p.ndim == 2 for p in parts):
        m = parts[0].shape[1]
        flat = [x for p in parts for x in p.flat]
        dt = _result_dtype([p.dtype for p in parts])
        return SArr([_cast(x, dt) for x in flat], (len(flat) // m, m), dt)
    raise SxUnsupported("concatenate along axis %r" % axis)


def delete(arr, obj, axis=None):
    if not _use_shim(arr, obj):
        return np.delete(arr, obj, axis=axis)
    a = asarr(arr)
    if a.ndim != 1:
        raise SxUnsupported("delete on 2-D")
    o = asarr(obj)
    idx = set(a._index1(o, a.shape[0]) if isinstance(o, SArr) or isinstance(o, (list, tuple)) else [a._index1(o, a.shape[0])])
    return SArr([x for i, x in enumerate(a.flat) if i not in idx], (a.shape[0] - len(idx),), a.dtype)


def unique(arr, **kw):
    if not _use_shim(arr):
        return np.unique(arr, **kw)
    a = asarr(arr)
    if kw:
        raise SxUnsupported("unique with options")
    if _sym_args(a.flat):
        # equality of symbolic entries is decided by forking
        out: List[Any] = []
        for x in a.flat:
            if not any(bool(_eq(x, y)) for y in out):
                out.append(x)
        # sort ascending by forking comparisons
        return SArr(_sorted(out), (len(out),), a.dtype)
    return asarr(np.unique(np.array(a.flat, dtype=a.dtype)))


def _sorted(xs: List[Any]) -> List[Any]:
    out: List[Any] = []
    for x in xs:
        i = 0
        while i < len(out) and bool(out[i] < x):
            i += 1
        out.insert(i, x)
    return out


def sort(arr, **kw):
    if not _use_shim(arr):
        return np.sort(arr, **kw)
    a = asarr(arr)
    if a.ndim != 1:
        raise SxUnsupported("sort on 2-D")
    return SArr(_sorted(list(a.flat)), a.shape, a.dtype)


def argsort(arr, **kw):
    if not _use_shim(arr):
        return np.argsort(arr, **kw)
    a = asarr(arr)
    idx: List[int] = []
    for i, x in enumerate(a.flat):
        k = 0
        while k < len(idx) and not bool(x < a.flat[idx[k]]):
            k += 1
        idx.insert(k, i)
    return SArr([np.int64(i) for i in idx], (len(idx),), _INT)


def where(cond, *xy):
    if not _use_shim(cond, *xy):
        return np.where(cond, *xy)
    c = asarr(cond)
    if not isinstance(c, SArr):
        c = SArr([c], (1,), _BOOL)
    if not xy:
        if c.ndim == 1:
            return (_where1(c),)
        rows, cols = [], []
        m = c.shape[1]
        for k, b in enumerate(c.flat):
            if b:
                rows.append(np.int64(k // m))
                cols.append(np.int64(k % m))
        return (SArr(rows, (len(rows),), _INT), SArr(cols, (len(cols),), _INT))
    x, y = xy
    return _binop(_binop(c, x, lambda cc, xx: (cc, xx), out=np.dtype(object)), y,
                  lambda p, yy: _select(p[0], p[1], yy))


def _where1(c: SArr) -> SArr:
    idx = [np.int64(i) for i, b in enumerate(c.flat) if b]
    return SArr(idx, (len(idx),), _INT)


def _select(c, x, y):
    return x if c else y


def indices(dimensions, **kw):
    if not _use_shim():
        return np.indices(dimensions, **kw)
    dims = tuple(int(d) for d in dimensions)
    if len(dims) != 1:
        raise SxUnsupported("indices for >1 dims")
    return [SArr([np.int64(i) for i in range(dims[0])], (dims[0],), _INT)]


def arange(*args, **kw):
    if not _use_shim(*args):
        return np.arange(*args, **kw)
    r = np.arange(*[int(a) if isinstance(a, SInt) else a for a in args], **kw)
    return asarr(r)


def flip(arr, axis=None):
    if not _use_shim(arr):
        return np.flip(arr, axis=axis)
    a = asarr(arr)
    if a.ndim == 1:
        return SArr(list(reversed(a.flat)), a.shape, a.dtype)
    n, m = a.shape
    rows = a.tolist()
    if axis in (None,):
        rows = [list(reversed(r)) for r in reversed(rows)]
    elif axis == 0:
        rows = list(reversed(rows))
    else:
        rows = [list(reversed(r)) for r in rows]
    return SArr([x for r in rows for x in r], a.shape, a.dtype)


# --------------------------------------------------------------------------- predicates
def _ufunc1(npf, symf, out_dtype=None):
    def f(x, *args, **kw):
        if not _use_shim(x):
            return npf(x, *args, **kw)
        if hasattr(x, "_sym") and hasattr(x, "_v") and x._sym():
            x = x._v()                      # numpy.pi handed to a ufunc: the shared symbolic constant, as in arithmetic
        a = asarr(x)
        if isinstance(a, SArr):
            flat = [symf(v) if is_symbolic(v) else _quiet(npf, v) for v in a.flat]
            dt = out_dtype or _result_dtype([_elem_dtype(v) for v in flat])
            return SArr(flat, a.shape, dt)
        if is_symbolic(a):
            return symf(a)
        return _quiet(npf, a, *args, **kw)
    f.__name__ = getattr(npf, "__name__", "ufunc")
    return f


def _quiet(f, *a, **kw):
    with warnings.catch_warnings():
        warnings.simplefilter("ignore")
        with np.errstate(all="ignore"):
            return f(*a, **kw)


def _false(_):
    return np.bool_(False)


def _is_cinf(v):
    from .values import CInf
    return np.bool_(isinstance(v, CInf))


isinf = _ufunc1(np.isinf, _is_cinf, _BOOL)
isnan = _ufunc1(np.isnan, _false, _BOOL)
isposinf = _ufunc1(np.isposinf, _false, _BOOL)
isneginf = _ufunc1(np.isneginf, _false, _BOOL)
isfinite = _ufunc1(np.isfinite, lambda v: np.bool_(not _is_cinf(v)), _BOOL)
real = _ufunc1(np.real, _real)
imag = _ufunc1(np.imag, _imag)
conj = _ufunc1(np.conj, lambda v: v.conjugate() if isinstance(v, SVal) else v)
abs_ = _ufunc1(np.abs, s_abs)
sqrt = _ufunc1(np.sqrt, s_sqrt)
def _sym():
    from . import sym
    return sym


tanh = _ufunc1(np.tanh, lambda v: _sym().s_tanh(v))
cosh = _ufunc1(np.cosh, lambda v: _sym().s_cosh(v))
sinh = _ufunc1(np.sinh, lambda v: _sym().s_sinh(v))
exp = _ufunc1(np.exp, lambda v: s_fun("exp", v, nonzero=True, positive=True))
log = _ufunc1(np.log, lambda v: s_fun("log", v))
log10 = _ufunc1(np.log10, lambda v: s_fun("log10", v))
angle_ = _ufunc1(np.angle, lambda v: s_fun("angle", v, real_if_real=False))
cos = _ufunc1(np.cos, lambda v: s_fun("cos", v))
sin = _ufunc1(np.sin, lambda v: s_fun("sin", v))
tan = _ufunc1(np.tan, lambda v: s_fun("tan", v))
radians = _ufunc1(np.radians, lambda v: v * pi_val() / 180)
deg2rad = radians
degrees = _ufunc1(np.degrees, lambda v: v * 180 / pi_val())
rad2deg = degrees
negative = _ufunc1(np.negative, lambda v: -v)


def angle(z, deg=False):
    if not _use_shim(z):
        return np.angle(z, deg=deg)

    def one(v):
        if is_symbolic(v):
            e = _eng.current()
            vv = SVal.lift(v, npy=True)

            def ax(res, arg):
                pass
            from .values import uf
            r = uf("angle", [vv], real_result=True)
            return r * 180 / pi_val() if deg else r
        return _quiet(np.angle, v, deg)
    a = asarr(z)
    if isinstance(a, SArr):
        return SArr([one(v) for v in a.flat], a.shape, _FLOAT)
    return one(a)


def sum_(a, axis=None, **kw):
    if not _use_shim(a):
        return np.sum(a, axis=axis, **kw)
    a = asarr(a)
    if not isinstance(a, SArr):
        return a
    if axis is None or a.ndim == 1:
        tot = _cast(0, a.dtype if a.dtype.kind != "b" else _INT)
        for x in a.flat:
            tot = _add(tot, x)
        return tot
    n, m = a.shape
    if axis in (0, -2):
        out = []
        for j in range(m):
            tot = _cast(0, a.dtype)
            for i in range(n):
                tot = _add(tot, a.flat[i * m + j])
            out.append(tot)
        return SArr(out, (m,), a.dtype)
    out = []
    for i in range(n):
        tot = _cast(0, a.dtype)
        for j in range(m):
            tot = _add(tot, a.flat[i * m + j])
        out.append(tot)
    return SArr(out, (n,), a.dtype)


def mean(a, axis=None, **kw):
    if not _use_shim(a):
        return np.mean(a, axis=axis, **kw)
    a = asarr(a)
    if axis is not None and a.ndim != 1:
        tot = sum_(a, axis=axis)
        return _binop(tot, a.shape[axis], _div, force_float=True)
    return _div(sum_(a), a.size)


def min_(a, *args, **kw):
    if not _use_shim(a):
        return np.min(a, *args, **kw)
    a = asarr(a)
    if not isinstance(a, SArr):
        return a
    if a.size == 0:
        raise ValueError("zero-size array to reduction operation minimum which has no identity")
    m = a.flat[0]
    for x in a.flat[1:]:
        if x < m:
            m = x
    return m


def max_(a, *args, **kw):
    if not _use_shim(a):
        return np.max(a, *args, **kw)
    a = asarr(a)
    if not isinstance(a, SArr):
        return a
    if a.size == 0:
        raise ValueError("zero-size array to reduction operation maximum which has no identity")
    m = a.flat[0]
    for x in a.flat[1:]:
        if x > m:
            m = x
    return m


def argmin(a, **kw):
    if not _use_shim(a):
        return np.argmin(a, **kw)
    a = asarr(a)
    k = 0
    for i in range(1, a.size):
        if a.flat[i] < a.flat[k]:
            k = i
    return np.int64(k)


def argmax(a, **kw):
    if not _use_shim(a):
        return np.argmax(a, **kw)
    a = asarr(a)
    k = 0
    for i in range(1, a.size):
        if a.flat[i] > a.flat[k]:
            k = i
    return np.int64(k)


def dot(a, b):
    if not _use_shim(a, b):
        return np.dot(a, b)
    a, b = asarr(a), asarr(b)
    if not isinstance(a, SArr) or not isinstance(b, SArr):
        return _binop(a, b, _mul)
    dt = _result_dtype([a.dtype, b.dtype])
    if a.ndim == 1 and b.ndim == 1:
        if a.size != b.size:
            raise ValueError("shapes not aligned")
        tot = _cast(0, dt)
        for x, y in zip(a.flat, b.flat):
            tot = _add(tot, _mul(x, y))
        return tot
    if a.ndim == 2 and b.ndim == 1:
        n, m = a.shape
        if m != b.size:
            raise ValueError("shapes not aligned")
        out = []
        for i in range(n):
            tot = _cast(0, dt)
            for j in range(m):
                tot = _add(tot, _mul(a.flat[i * m + j], b.flat[j]))
            out.append(tot)
        return SArr(out, (n,), None)
    if a.ndim == 1 and b.ndim == 2:
        n, m = b.shape
        if n != a.size:
            raise ValueError("shapes not aligned")
        out = []
        for j in range(m):
            tot = _cast(0, dt)
            for i in range(n):
                tot = _add(tot, _mul(a.flat[i], b.flat[i * m + j]))
            out.append(tot)
        return SArr(out, (m,), None)
    n, k = a.shape
    k2, m = b.shape
    if k != k2:
        raise ValueError("shapes not aligned")
    out = []
    for i in range(n):
        for j in range(m):
            tot = _cast(0, dt)
            for l in range(k):
                tot = _add(tot, _mul(a.flat[i * k + l], b.flat[l * m + j]))
            out.append(tot)
    return SArr(out, (n, m), None)


def all_(a, axis=None, **kw):
    if not _use_shim(a):
        return np.all(a, axis=axis, **kw)
    a = asarr(a)
    return a.all(axis=axis) if isinstance(a, SArr) else bool(a)


def any_(a, axis=None, **kw):
    if not _use_shim(a):
        return np.any(a, axis=axis, **kw)
    a = asarr(a)
    return a.any(axis=axis) if isinstance(a, SArr) else bool(a)


def allclose(a, b, rtol=1e-05, atol=1e-08, **kw):
    if not _use_shim(a, b):
        return np.allclose(a, b, rtol=rtol, atol=atol, **kw)
    r = isclose(a, b, rtol=rtol, atol=atol)
    return r.all() if isinstance(r, SArr) else bool(r)


def isclose(a, b, rtol=1e-05, atol=1e-08, **kw):
    if not _use_shim(a, b):
        return np.isclose(a, b, rtol=rtol, atol=atol, **kw)

    def one(x, y):
        if is_symbolic(x) or is_symbolic(y):
            return s_abs(_sub(x, y)) <= _add(atol, _mul(rtol, s_abs(y)))
        return _quiet(np.isclose, x, y, rtol, atol)
    return _binop(a, b, one, out=_BOOL)


def linspace(start, stop, num=50, **kw):
    if not _use_shim(start, stop, num):
        return np.linspace(start, stop, num, **kw)
    num = int(num)
    if not _sym_args(start, stop):
        return asarr(np.linspace(start, stop, num, **kw))
    if kw:
        raise SxUnsupported("linspace options")
    if num == 1:
        return SArr([_num(start)], (1,), _FLOAT)
    step = _div(_sub(stop, start), num - 1)
    return SArr([_add(start, _mul(step, i)) for i in range(num)], (num,), _FLOAT)


def logspace(start, stop, num=50, **kw):
    if not _use_shim(start, stop, num):
        return np.logspace(start, stop, num, **kw)
    pts = linspace(start, stop, num, **kw)
    return _binop(10.0, pts, _pow)


def ceil(x):
    if not _sym_args(x) and not (isinstance(x, SArr) and _sym_args(x.flat)):
        return asarr(np.ceil(np.array(x.flat).reshape(x.shape))) if isinstance(x, SArr) else np.ceil(x)
    raise SxUnsupported("ceil of a symbolic value")


def floor(x):
    if not _sym_args(x) and not (isinstance(x, SArr) and _sym_args(x.flat)):
        return asarr(np.floor(np.array(x.flat).reshape(x.shape))) if isinstance(x, SArr) else np.floor(x)
    raise SxUnsupported("floor of a symbolic value")


def vstack(tup):
    if not _use_shim(list(tup)):
        return np.vstack(tup)
    rows = [asarr(t) for t in tup]
    if all(r.ndim == 1 for r in rows):
        return array([list(r.flat) for r in rows])
    return concatenate(rows, axis=0)


def identity(n, dtype=None):
    if not _use_shim():
        return np.identity(n, dtype=dtype)
    z = zeros((n, n), dtype or float)
    for i in range(n):
        z[i, i] = 1
    return z


eye = identity


def diag(v, k=0):
    if not _use_shim(v):
        return np.diag(v, k)
    a = asarr(v)
    if a.ndim == 1:
        n = a.size
        z = zeros((n, n), a.dtype)
        for i in range(n):
            z[i, i] = a.flat[i]
        return z
    n = min(a.shape)
    return SArr([a[i, i] for i in range(n)], (n,), a.dtype)


def npmin(a, *args, **kw):
    return min_(a, *args, **kw)


def npmax(a, *args, **kw):
    return max_(a, *args, **kw)


def issubdtype(a, b):
    return np.issubdtype(a, b)


def norm(a, ord=None, axis=None, **kw):
    """numpy.linalg.norm, 2-norm of a vector / Frobenius norm only"""
    if not _use_shim(a):
        return np.linalg.norm(a, ord=ord, axis=axis, **kw)
    if ord not in (None, 2, "fro") or axis is not None:
        raise SxUnsupported("norm(ord=%r, axis=%r)" % (ord, axis))
    a = asarr(a)
    tot = 0
    for x in a.flat:
        m = abs_(x)
        tot = _add(tot, _mul(m, m))
    return sqrt(tot)


# identity-keyed table: numpy object -> shim
TABLE = {}


def _reg(npobj, shim):
    TABLE[id(npobj)] = (npobj, shim)


for _n, _s in [
    ("zeros", zeros), ("ones", ones), ("full", full), ("array", array), ("asarray", asarray), ("fromiter", fromiter),
    ("concatenate", concatenate), ("delete", delete), ("unique", unique), ("where", where), ("indices", indices),
    ("arange", arange), ("flip", flip), ("isinf", isinf), ("isnan", isnan), ("isposinf", isposinf),
    ("isneginf", isneginf), ("isfinite", isfinite), ("real", real), ("imag", imag), ("conj", conj),
    ("abs", abs_), ("absolute", abs_), ("sqrt", sqrt), ("tanh", tanh), ("cosh", cosh), ("sinh", sinh),
    ("exp", exp), ("log", log), ("log10", log10), ("angle", angle), ("cos", cos), ("sin", sin), ("tan", tan),
    ("radians", radians), ("deg2rad", deg2rad), ("degrees", degrees), ("rad2deg", rad2deg),
    ("sum", sum_), ("mean", mean), ("min", min_), ("max", max_), ("amin", min_), ("amax", max_),
    ("argmin", argmin), ("argmax", argmax), ("dot", dot), ("allclose", allclose), ("isclose", isclose),
    ("linspace", linspace), ("logspace", logspace), ("ceil", ceil), ("floor", floor), ("vstack", vstack),
    ("identity", identity), ("eye", eye), ("diag", diag), ("sort", sort), ("argsort", argsort),
    ("negative", negative), ("all", all_), ("any", any_),
]:
    _reg(getattr(np, _n), _s)
_reg(np.linalg.norm, norm)
