"""sx.strs -- symbolic characters and concrete-length symbolic strings.

SChar: one code point as a z3 Int.  SStr: a sequence of items, each a concrete 1-character str or an
SChar.  Only ASCII semantics are modelled exactly; an operation whose answer depends on Unicode
tables for a possibly non-ASCII symbolic character raises SxUnsupported (-> inconclusive).
A symbolic character is hashable only once the path pins it to one code point; hashing an unpinned
character forks over its feasible values (bounded by `MAX_PIN_FORKS`).
"""
from __future__ import annotations

import string as _string
from typing import Any, List, Optional

import z3

from . import engine as _eng
from .engine import SxUnsupported
from .values import SBool, SVal, s_and, s_or, s_not

MAX_CODE = 0x10FFFF
MAX_PIN_FORKS = 80


def _or_codes(code, chars) -> Any:
    cs = sorted(set(ord(c) for c in chars))
    if not cs:
        return False
    # merge into ranges
    terms = []
    i = 0
    while i < len(cs):
        j = i
        while j + 1 < len(cs) and cs[j + 1] == cs[j] + 1:
            j += 1
        if i == j:
            terms.append(code == cs[i])
        else:
            terms.append(z3.And(code >= cs[i], code <= cs[j]))
        i = j + 1
    return terms[0] if len(terms) == 1 else z3.Or(*terms)


class SChar:
    _sx_symbolic = True
    __slots__ = ("code", "pinned", "name")

    def __init__(self, code, name=""):
        self.code = code
        self.pinned: Optional[str] = None
        self.name = name

    # ---- identity
    def _pin_check(self) -> Optional[str]:
        if self.pinned is not None:
            return self.pinned
        return None

    def concretize(self) -> str:
        if self.pinned is None:
            e = _eng.current()
            n = 0
            while True:
                n += 1
                if n > MAX_PIN_FORKS:
                    raise SxUnsupported("too many feasible values while pinning a symbolic character")
                v = e.concretize(self.code)
                self.pinned = chr(v.as_long())
                break
        return self.pinned

    def in_term(self, chars) -> Any:
        return _or_codes(self.code, chars)

    def eq_term(self, other) -> Any:
        if isinstance(other, SChar):
            return self.code == other.code
        if isinstance(other, str):
            if len(other) != 1:
                return False
            return self.code == ord(other)
        if isinstance(other, SStr):
            if len(other) != 1:
                return False
            return self.eq_term(other.items[0])
        return None

    def __eq__(self, other):
        t = self.eq_term(other)
        if t is None:
            return NotImplemented if other is not None else False
        if isinstance(t, bool):
            return t
        return SBool(t)

    def __ne__(self, other):
        r = self.__eq__(other)
        if r is NotImplemented:
            return True
        return s_not(r)

    def __hash__(self):
        return hash(self.concretize())

    def __len__(self):
        return 1

    def __iter__(self):
        return iter([self])

    def __getitem__(self, k):
        return SStr([self])[k]

    def __sx_in__(self, container):
        if isinstance(container, str):
            if container == "":
                return False
            t = self.in_term(container)
            return SBool(t) if not isinstance(t, bool) else t
        if isinstance(container, SStr):
            return s_or(*[self == it for it in container.items])
        if isinstance(container, (dict, set, frozenset)):
            keys = [k for k in container if isinstance(k, str) and len(k) == 1]
            t = self.in_term(keys) if keys else False
            return SBool(t) if not isinstance(t, bool) else t
        if isinstance(container, (list, tuple)):
            return s_or(*[self == it for it in container if isinstance(it, (str, SChar, SStr))])
        raise SxUnsupported("symbolic character in %s" % type(container).__name__)

    def __sx_isinstance__(self, cls):
        return cls in (str, object)

    def __sx_type__(self):
        return str

    def __add__(self, other):
        return SStr([self]) + other

    def __radd__(self, other):
        return SStr.lift(other) + SStr([self])

    def _class(self, chars) -> bool:
        """decide (forking if needed) whether this character is one of `chars`"""
        t = self.in_term(chars)
        return t if isinstance(t, bool) else _eng.current().decide(t)

    def is_ascii_term(self):
        return self.code < 128

    def isascii(self):
        return SBool(self.code < 128)

    def isdigit(self):
        if _eng.current().decide(self.code < 128):
            return SBool(self.in_term(_string.digits))
        raise SxUnsupported("isdigit() of a possibly non-ASCII symbolic character")

    def isspace(self):
        if _eng.current().decide(self.code < 128):
            return SBool(self.in_term(" \t\n\r\x0b\x0c\x1c\x1d\x1e\x1f"))
        raise SxUnsupported("isspace() of a possibly non-ASCII symbolic character")

    def isalpha(self):
        if _eng.current().decide(self.code < 128):
            return SBool(self.in_term(_string.ascii_letters))
        raise SxUnsupported("isalpha() of a possibly non-ASCII symbolic character")

    def upper(self):
        if _eng.current().decide(self.code < 128):
            lo = z3.And(self.code >= 97, self.code <= 122)
            return SChar(z3.If(lo, self.code - 32, self.code))
        raise SxUnsupported("upper() of a possibly non-ASCII symbolic character")

    def lower(self):
        if _eng.current().decide(self.code < 128):
            up = z3.And(self.code >= 65, self.code <= 90)
            return SChar(z3.If(up, self.code + 32, self.code))
        raise SxUnsupported("lower() of a possibly non-ASCII symbolic character")

    def __repr__(self):
        return "<SChar %s>" % (repr(self.pinned) if self.pinned is not None else (self.name or "?"))

    def __str__(self):
        return self.pinned if self.pinned is not None else "⁇"

    def __format__(self, spec):
        return str(self)

    def __sx_str__(self):
        return SStr([self])

    def __sx_float__(self):
        return SStr([self]).__sx_float__()


def schar(name: str, register: bool = True, ascii_only: bool = False) -> SChar:
    e = _eng.current()
    t = e.fresh_int(name, register)
    e.axiom(z3.And(t >= 0, t <= (127 if ascii_only else MAX_CODE)))
    return SChar(t, name)


class SStr:
    """concrete-length string of concrete characters and SChars"""
    _sx_symbolic = True
    __slots__ = ("items",)

    def __init__(self, items: List[Any]):
        self.items = list(items)

    @staticmethod
    def lift(x) -> "SStr":
        if isinstance(x, SStr):
            return x
        if isinstance(x, SChar):
            return SStr([x])
        if isinstance(x, str):
            return SStr(list(x))
        raise TypeError("can only concatenate str (not %r) to str" % type(x).__name__)

    def is_concrete(self) -> bool:
        return all(isinstance(i, str) or i.pinned is not None for i in self.items)

    def concrete(self) -> str:
        return "".join(i if isinstance(i, str) else i.concretize() for i in self.items)

    def __len__(self):
        return len(self.items)

    def __iter__(self):
        return iter(self.items)

    def __getitem__(self, k):
        if isinstance(k, slice):
            part = self.items[k]
            if all(isinstance(i, str) for i in part):
                return "".join(part)          # a fully concrete slice is an ordinary str (usable as a keyword etc.)
            return SStr(part)
        return self.items[k]

    def __add__(self, other):
        if isinstance(other, (str, SChar, SStr)):
            return SStr(self.items + SStr.lift(other).items)
        return NotImplemented

    def __radd__(self, other):
        if isinstance(other, (str, SChar)):
            return SStr(SStr.lift(other).items + self.items)
        return NotImplemented

    def eq_term(self, other) -> Any:
        if isinstance(other, SChar):
            other = SStr([other])
        if isinstance(other, str):
            other = SStr(list(other))
        if not isinstance(other, SStr):
            return None
        if len(other) != len(self):
            return False
        ts = []
        for a, b in zip(self.items, other.items):
            if isinstance(a, str) and isinstance(b, str):
                if a != b:
                    return False
                continue
            t = (a.eq_term(b) if isinstance(a, SChar) else b.eq_term(a))
            if t is False:
                return False
            if t is not True:
                ts.append(t)
        if not ts:
            return True
        return z3.And(*ts) if len(ts) > 1 else ts[0]

    def __eq__(self, other):
        t = self.eq_term(other)
        if t is None:
            return False
        return t if isinstance(t, bool) else SBool(t)

    def __ne__(self, other):
        return s_not(self.__eq__(other))

    def __hash__(self):
        return hash(self.concrete())

    def __bool__(self):
        return len(self.items) > 0

    def __sx_isinstance__(self, cls):
        return cls in (str, object)

    def __sx_type__(self):
        return str

    def __sx_str__(self):
        return self

    def __contains__(self, item):
        raise SxUnsupported("`in` on a symbolic string without the rewrite hook")

    def __sx_contains__(self, item):
        if isinstance(item, (str, SChar)) and len(item) == 1:
            return s_or(*[(it == item) if isinstance(it, SChar) else ((item == it) if isinstance(item, SChar) else it == item)
                          for it in self.items])
        if isinstance(item, str) and item == "":
            return True
        # substring search by forking on every alignment
        it = SStr.lift(item)
        n, m = len(self), len(it)
        for i in range(0, n - m + 1):
            if SStr(self.items[i:i + m]) == it:
                return True
        return False

    def __sx_in__(self, container):
        """self in container"""
        if isinstance(container, (dict, set, frozenset, list, tuple)):
            for k in container:
                if isinstance(k, (str, SStr)) and len(k) == len(self):
                    if self == k:          # forks; on success the characters are implied equal
                        self._pin_to(k)
                        return True
            return False
        if isinstance(container, (str, SStr)):
            return SStr.lift(container).__sx_contains__(self)
        raise SxUnsupported("symbolic string in %s" % type(container).__name__)

    def _pin_to(self, k):
        if isinstance(k, str):
            for it, c in zip(self.items, k):
                if isinstance(it, SChar):
                    it.pinned = c

    # ---- str API (ASCII-exact)
    def strip(self, chars=None):
        ws = " \t\n\r\x0b\x0c" if chars is None else chars
        items = list(self.items)

        def is_ws(it):
            if isinstance(it, str):
                return it in ws if chars is not None else it.isspace()
            if chars is None:
                if _eng.current().decide(it.code >= 128):
                    raise SxUnsupported("strip() over a possibly non-ASCII symbolic character")
                return it._class(" \t\n\r\x0b\x0c\x1c\x1d\x1e\x1f")
            return it._class(ws)
        while items and is_ws(items[0]):
            items.pop(0)
        while items and is_ws(items[-1]):
            items.pop()
        return SStr(items)

    def startswith(self, prefix, *a):
        p = SStr.lift(prefix)
        if len(p) > len(self):
            return False
        return bool(SStr(self.items[:len(p)]) == p)

    def endswith(self, suffix, *a):
        p = SStr.lift(suffix)
        if len(p) > len(self):
            return False
        return bool(SStr(self.items[len(self) - len(p):]) == p)

    def find(self, sub, start=0, end=None):
        p = SStr.lift(sub)
        n = len(self) if end is None else min(end, len(self))
        for i in range(max(start, 0), n - len(p) + 1):
            if SStr(self.items[i:i + len(p)]) == p:
                return i
        return -1

    def isascii(self):
        return s_and(*[True if isinstance(i, str) and i.isascii() else (False if isinstance(i, str) else i.isascii()) for i in self.items]) \
            if all(not (isinstance(i, str) and not i.isascii()) for i in self.items) else False

    def isdigit(self):
        if not self.items:
            return False
        return s_and(*[(i.isdigit() if isinstance(i, SChar) else i.isdigit()) for i in self.items])

    def isidentifier(self):
        if not self.items:
            return False
        for k, it in enumerate(self.items):
            ok_chars = _string.ascii_letters + "_" + (_string.digits if k else "")
            if isinstance(it, str):
                if it.isascii():
                    if it not in ok_chars:
                        return False
                elif not ("a" + it).isidentifier() if k else not it.isidentifier():
                    return False
                continue
            if _eng.current().decide(it.code >= 128):
                raise SxUnsupported("isidentifier() over a possibly non-ASCII symbolic character")
            if not it._class(ok_chars):
                return False
        return True

    def upper(self):
        return SStr([i.upper() for i in self.items])

    def lower(self):
        return SStr([i.lower() for i in self.items])

    def rfind(self, sub, start=0, end=None):
        p = SStr.lift(sub)
        n = len(self) if end is None else min(end, len(self))
        for i in range(n - len(p), max(start, 0) - 1, -1):
            if SStr(self.items[i:i + len(p)]) == p:
                return i
        return -1

    def split(self, sep=None, maxsplit=-1):
        """split at a concrete, non-empty separator: every alignment forks on "is the separator here" """
        if sep is None or not isinstance(sep, str) or sep == "":
            raise SxUnsupported("split() of a symbolic string without a concrete separator")
        m = len(sep)
        out, cur, i, n = [], [], 0, len(self.items)
        while i < n:
            if (maxsplit < 0 or len(out) < maxsplit) and i + m <= n and SStr(self.items[i:i + m]) == sep:
                out.append(SStr(cur)[:])
                cur = []
                i += m
            else:
                cur.append(self.items[i])
                i += 1
        out.append(SStr(cur)[:])
        return out

    def __sx_int__(self, base=10):
        """int(text), base 10: [ws] [sign] digits [ws]; underscores spelled by symbolic characters are not modelled.
        The value is an uninterpreted integer with the sign of the text, the same for the same characters."""
        if self.is_concrete():
            return int(self.concrete(), base)
        if base != 10:
            raise SxUnsupported("int(text, base) with a base other than 10")
        e = _eng.current()
        for it in self.items:
            if isinstance(it, SChar) and e.decide(it.code >= 128):
                raise SxUnsupported("int() of text with a possibly non-ASCII symbolic character")
        items = list(self.strip(" \t\n\r\x0b\x0c").items)      # int() ignores surrounding ASCII white space (not \x1c-\x1f)

        def cls(it, chars):
            return (it in chars) if isinstance(it, str) else it._class(chars)
        i, n, neg = 0, len(items), False
        if i < n and cls(items[i], "+-"):
            neg = bool(cls(items[i], "-"))
            i += 1
        nd = 0
        while i < n and cls(items[i], _string.digits):
            i += 1
            nd += 1
        if nd == 0 or i != n:
            for it in items[i:]:
                if cls(it, "_"):
                    raise SxUnsupported("int() of text with '_' spelled by a symbolic character")
            raise ValueError("invalid literal for int() with base 10: %s" % self)
        key = ("int",) + tuple(it if isinstance(it, str) else id(it) for it in items)
        memo = e.scratch.setdefault("numeral_memo", {})
        if key not in memo:
            k = e.scratch.get("numeral", 0)
            e.scratch["numeral"] = k + 1
            v = e.integer("numeral%d" % k)
            e.assume(v <= 0 if neg else v >= 0)
            memo[key] = v
        return memo[key]

    def __repr__(self):
        return "<SStr %r>" % "".join(str(i) for i in self.items)

    def __str__(self):
        return "".join(str(i) for i in self.items)

    def __format__(self, spec):
        return str(self)

    # ---- numbers
    def __sx_float__(self):
        """float(text): decides by forking whether the text has Python's float syntax (ASCII subset:
        [ws] [sign] digits [. digits] | . digits, optional exponent, inf/nan words excluded unless concrete);
        the value itself is a fresh real constrained only in sign (-> uninterpreted numeral value)."""
        if self.is_concrete():
            return float(self.concrete())
        e = _eng.current()
        items = list(self.items)
        D = _string.digits

        def cls(it, chars):
            if isinstance(it, str):
                return it in chars
            return it._class(chars)
        for it in items:
            if isinstance(it, SChar) and e.decide(it.code >= 128):
                raise SxUnsupported("float() of text with a possibly non-ASCII symbolic character")
        items = list(self.strip(" \t\n\r\x0b\x0c").items)          # float() ignores surrounding ASCII white space (not \x1c-\x1f, unlike str.strip)
        i, n = 0, len(items)
        neg = False
        if i < n and cls(items[i], "+-"):
            neg = bool(cls(items[i], "-"))
            i += 1
        nd = 0
        while i < n and cls(items[i], D):
            i += 1
            nd += 1
        if i < n and cls(items[i], "."):
            i += 1
            while i < n and cls(items[i], D):
                i += 1
                nd += 1
        if nd == 0:
            raise ValueError("could not convert string to float: %s" % self)
        if i < n and cls(items[i], "eE"):
            i += 1
            if i < n and cls(items[i], "+-"):
                i += 1
            ne = 0
            while i < n and cls(items[i], D):
                i += 1
                ne += 1
            if ne == 0:
                raise ValueError("could not convert string to float: %s" % self)
        if i != n:
            # underscores between digits, surrounding white space, inf/nan words: not modelled symbolically
            # (surrounding white space was stripped above; white space inside a numeral is invalid)
            for it in items:
                if isinstance(it, SChar) and cls(it, "_infatyINFATY"):
                    raise SxUnsupported("float() of text with '_' / inf / nan spelled by symbolic characters")
            raise ValueError("could not convert string to float: %s" % self)
        key = ("float",) + tuple(it if isinstance(it, str) else id(it) for it in items)
        memo = e.scratch.setdefault("numeral_memo", {})
        if key not in memo:                       # the same characters denote the same number
            k = e.scratch.get("numeral", 0)
            e.scratch["numeral"] = k + 1
            v = e.real("numeral%d" % k)
            e.assume(v <= 0 if neg else v >= 0)
            memo[key] = v
        return memo[key]
