"""sx.values -- symbolic booleans, integers and (complex) numbers.

Numbers are complex rational functions N/D whose numerator and denominator are complex
polynomials, each stored as a pair (re, im) of *terms*; a term is a `Fraction` constant or a z3
real expression.  Reciprocal is a swap; nothing is realified before `.real/.imag/abs/compare`.
Invariant: D != 0 under the path condition (every division forks on "divisor == 0").
Floats are modelled as reals: rounding, overflow and underflow are outside every claim.
"""
from __future__ import annotations

import math
from fractions import Fraction
from typing import Any, List, Optional, Tuple

import numpy as _np
import z3

from . import engine as _eng
from . import cpoly as _cp
from .engine import SxUnsupported, SxInconclusive

ZERO = Fraction(0)
ONE = Fraction(1)


# --------------------------------------------------------------------------- terms
def isc(x) -> bool:
    return isinstance(x, Fraction)


def zt(x):
    """term -> z3 real expression"""
    if isinstance(x, Fraction):
        return z3.RealVal(x.numerator) if x.denominator == 1 else z3.Q(x.numerator, x.denominator)
    return x


def tadd(a, b):
    if isc(a):
        if isc(b):
            return a + b
        if a == 0:
            return b
    elif isc(b) and b == 0:
        return a
    return zt(a) + zt(b)


def tneg(a):
    if isc(a):
        return -a
    return -a


def tsub(a, b):
    if isc(b):
        if isc(a):
            return a - b
        if b == 0:
            return a
    elif isc(a) and a == 0:
        return tneg(b)
    return zt(a) - zt(b)


def tmul(a, b):
    if isc(a):
        if isc(b):
            return a * b
        if a == 0:
            return ZERO
        if a == 1:
            return b
        if a == -1:
            return tneg(b)
    elif isc(b):
        if b == 0:
            return ZERO
        if b == 1:
            return a
        if b == -1:
            return tneg(a)
    return zt(a) * zt(b)


def teq(a, b) -> bool:
    """syntactic equality of terms"""
    if isc(a) or isc(b):
        return isc(a) and isc(b) and a == b
    return a.eq(b)


def cmul(a, b):
    (ar, ai), (br, bi) = a, b
    if isc(ai) and ai == 0:
        return (tmul(ar, br), tmul(ar, bi))
    if isc(bi) and bi == 0:
        return (tmul(ar, br), tmul(ai, br))
    return (tsub(tmul(ar, br), tmul(ai, bi)), tadd(tmul(ar, bi), tmul(ai, br)))


def cadd(a, b):
    return (tadd(a[0], b[0]), tadd(a[1], b[1]))


def csub(a, b):
    return (tsub(a[0], b[0]), tsub(a[1], b[1]))


def cneg(a):
    return (tneg(a[0]), tneg(a[1]))


def ceqs(a, b) -> bool:
    return teq(a[0], b[0]) and teq(a[1], b[1])


def t_is_zero(a):
    """z3 Bool / python bool for term == 0"""
    if isc(a):
        return a == 0
    return a == 0


def c_is_zero(a):
    r, i = t_is_zero(a[0]), t_is_zero(a[1])
    if r is True:
        return i
    if i is True:
        return r
    if r is False or i is False:
        return False
    return z3.And(r, i)


def frac_of(x) -> Fraction:
    """Exact-decimal rational of a finite python number (1e-6 -> 1/1000000)."""
    if isinstance(x, Fraction):
        return x
    if isinstance(x, bool):
        return Fraction(int(x))
    if isinstance(x, int):
        return Fraction(x)
    if isinstance(x, (_np.integer,)):
        return Fraction(int(x))
    if isinstance(x, (_np.bool_,)):
        return Fraction(int(x))
    return Fraction(repr(float(x)))


# --------------------------------------------------------------------------- booleans
class SBool:
    """a boolean; npy=True marks a numpy.bool_ (same value semantics, but never *identical* to True / False)"""
    __slots__ = ("term", "npy")
    _sx_symbolic = True

    def __init__(self, term, npy=False):
        self.term = term
        self.npy = npy

    def __sx_is__(self, other):
        # `x is True` / `x is flag`: Python's bools are singletons, so identity of two Python bools is equality of their values;
        # a numpy.bool_ is a different object from True / False and from every other numpy.bool_
        if other is self:
            return True
        if self.npy or getattr(other, "npy", False) or isinstance(other, _np.bool_):
            return False
        if isinstance(other, (bool, SBool)):
            return SBool(self.term == self._t(other))
        return False

    def __bool__(self):
        return _eng.current().decide(self.term)

    def __invert__(self):
        return SBool(z3.Not(self.term))

    def _t(self, o):
        if isinstance(o, SBool):
            return o.term
        if isinstance(o, (bool, _np.bool_)):
            return z3.BoolVal(bool(o))
        return None

    def __and__(self, o):
        t = self._t(o)
        return NotImplemented if t is None else SBool(z3.And(self.term, t))

    __rand__ = __and__

    def __or__(self, o):
        t = self._t(o)
        return NotImplemented if t is None else SBool(z3.Or(self.term, t))

    __ror__ = __or__

    def __xor__(self, o):
        t = self._t(o)
        return NotImplemented if t is None else SBool(z3.Xor(self.term, t))

    __rxor__ = __xor__

    def __eq__(self, o):
        t = self._t(o)
        return NotImplemented if t is None else SBool(self.term == t)

    def __ne__(self, o):
        t = self._t(o)
        return NotImplemented if t is None else SBool(self.term != t)

    def __hash__(self):
        return id(self)

    def __repr__(self):
        return "<SBool %s>" % _eng._short(self.term, 60)

    __str__ = __repr__

    def __format__(self, spec):
        return repr(self)

    def __int__(self):
        return 1 if bool(self) else 0

    def __index__(self):
        return 1 if bool(self) else 0


def sbool(x) -> "SBool":
    if isinstance(x, SBool):
        return x
    return SBool(z3.BoolVal(bool(x)))


def s_and(*xs):
    ts = []
    for x in xs:
        if isinstance(x, SBool):
            ts.append(x.term)
        elif isinstance(x, z3.BoolRef):
            ts.append(x)
        elif not x:
            return False
    if not ts:
        return True
    return SBool(z3.And(*ts))


def s_or(*xs):
    ts = []
    for x in xs:
        if isinstance(x, SBool):
            ts.append(x.term)
        elif isinstance(x, z3.BoolRef):
            ts.append(x)
        elif x:
            return True
    if not ts:
        return False
    return SBool(z3.Or(*ts))


def s_not(x):
    if isinstance(x, SBool):
        return SBool(z3.Not(x.term))
    if isinstance(x, z3.BoolRef):
        return SBool(z3.Not(x))
    return not x


def s_implies(a, b):
    return s_or(s_not(a), b)


def s_ite(c, a, b):
    """value-level if-then-else for SVal / numbers (no fork)"""
    if not isinstance(c, SBool):
        return a if c else b
    a, b = SVal.lift(a), SVal.lift(b)
    if not (a.is_real() and b.is_real()) or not (isc(a.dr) and isc(b.dr)):
        raise SxUnsupported("s_ite on non-polynomial reals")
    return SVal(z3.If(c.term, zt(tmul(a.nr, ONE / a.dr)), zt(tmul(b.nr, ONE / b.dr))))


# --------------------------------------------------------------------------- integers
class SInt:
    __slots__ = ("term",)
    _sx_symbolic = True

    def __init__(self, term):
        self.term = term

    @staticmethod
    def _t(o):
        if isinstance(o, SInt):
            return o.term
        if isinstance(o, bool):
            return z3.IntVal(int(o))
        if isinstance(o, (int, _np.integer)):
            return z3.IntVal(int(o))
        return None

    def _bin(self, o, f, refl=False):
        t = self._t(o)
        if t is None:
            if isinstance(o, (float, Fraction, SVal, complex, _np.floating)):
                a = SVal(z3.ToReal(self.term))
                return None, a
            return NotImplemented, None
        return (f(t, self.term) if refl else f(self.term, t)), None

    def __add__(self, o):
        r, a = self._bin(o, lambda x, y: x + y)
        return a + o if a is not None else (r if r is NotImplemented else SInt(r))

    def __radd__(self, o):
        r, a = self._bin(o, lambda x, y: x + y, True)
        return o + a if a is not None else (r if r is NotImplemented else SInt(r))

    def __sub__(self, o):
        r, a = self._bin(o, lambda x, y: x - y)
        return a - o if a is not None else (r if r is NotImplemented else SInt(r))

    def __rsub__(self, o):
        r, a = self._bin(o, lambda x, y: x - y, True)
        return o - a if a is not None else (r if r is NotImplemented else SInt(r))

    def __mul__(self, o):
        r, a = self._bin(o, lambda x, y: x * y)
        return a * o if a is not None else (r if r is NotImplemented else SInt(r))

    def __rmul__(self, o):
        r, a = self._bin(o, lambda x, y: x * y, True)
        return o * a if a is not None else (r if r is NotImplemented else SInt(r))

    def __truediv__(self, o):
        return SVal(z3.ToReal(self.term)) / o

    def __rtruediv__(self, o):
        return o / SVal(z3.ToReal(self.term))

    def __and__(self, o):
        # x & (2**k - 1) == x mod 2**k for Python's unbounded two's-complement integers (also for negative x); other masks are not modelled
        if isinstance(o, (int, _np.integer)) and not isinstance(o, bool) and o >= 0 and (int(o) + 1) & int(o) == 0:
            return SInt(self.term % (int(o) + 1))
        raise SxUnsupported("bitwise and of a symbolic integer with %r" % (o,))

    __rand__ = __and__

    def __mod__(self, o):
        # Python's % with a positive constant modulus is the mathematical (non-negative) remainder, as z3's mod
        if isinstance(o, (int, _np.integer)) and not isinstance(o, bool) and o > 0:
            return SInt(self.term % int(o))
        raise SxUnsupported("symbolic integer %% %r" % (o,))

    def __neg__(self):
        return SInt(-self.term)

    def __pos__(self):
        return self

    def _cmp(self, o, f):
        t = self._t(o)
        if t is None:
            if isinstance(o, (float, Fraction, SVal, _np.floating)):
                return None
            return NotImplemented
        return SBool(f(self.term, t))

    def __lt__(self, o):
        r = self._cmp(o, lambda x, y: x < y)
        return SVal(z3.ToReal(self.term)) < o if r is None else r

    def __le__(self, o):
        r = self._cmp(o, lambda x, y: x <= y)
        return SVal(z3.ToReal(self.term)) <= o if r is None else r

    def __gt__(self, o):
        r = self._cmp(o, lambda x, y: x > y)
        return SVal(z3.ToReal(self.term)) > o if r is None else r

    def __ge__(self, o):
        r = self._cmp(o, lambda x, y: x >= y)
        return SVal(z3.ToReal(self.term)) >= o if r is None else r

    def __eq__(self, o):
        r = self._cmp(o, lambda x, y: x == y)
        if r is NotImplemented:
            return False
        return SVal(z3.ToReal(self.term)) == o if r is None else r

    def __ne__(self, o):
        r = self._cmp(o, lambda x, y: x != y)
        if r is NotImplemented:
            return True
        return SVal(z3.ToReal(self.term)) != o if r is None else r

    def __hash__(self):
        return hash(int(self))

    def __bool__(self):
        return _eng.current().decide(self.term != 0)

    def __index__(self):
        v = _eng.current().concretize(self.term)
        return v.as_long()

    __int__ = __index__

    def __float__(self):
        return float(self.__index__())

    def __repr__(self):
        return "<SInt %s>" % _eng._short(self.term, 60)

    __str__ = __repr__

    def __format__(self, spec):
        return repr(self)


# --------------------------------------------------------------------------- numbers
def _nonfinite(x) -> bool:
    if isinstance(x, (float, _np.floating)):
        return not math.isfinite(x)
    if isinstance(x, (complex, _np.complexfloating)):
        return not (math.isfinite(x.real) and math.isfinite(x.imag))
    return False


class SVal:
    """A symbolic finite real or complex number N/D."""
    __slots__ = ("nr", "ni", "dr", "di", "npy", "cx")
    _sx_symbolic = True
    __array_priority__ = 1000

    def __init__(self, nr, ni=ZERO, dr=ONE, di=ZERO, npy=False, cx=None):
        # fold a constant denominator into the numerator
        if isc(dr) and isc(di) and not (dr == 1 and di == 0):
            m = dr * dr + di * di
            inv = (dr / m, -di / m)
            nr, ni = cmul((nr, ni), inv)
            dr, di = ONE, ZERO
        self.nr, self.ni, self.dr, self.di = nr, ni, dr, di
        self.npy = npy
        if cx is None and isc(nr) and isc(ni) and isc(dr) and isc(di):
            cx = _cp.const(nr, ni)
        self.cx = cx

    # ---- construction
    @staticmethod
    def lift(x, npy=False) -> Optional["SVal"]:
        if isinstance(x, SVal):
            return x
        if isinstance(x, SInt):
            return SVal(z3.ToReal(x.term), npy=npy)
        if isinstance(x, SBool):
            return SVal(z3.If(x.term, z3.RealVal(1), z3.RealVal(0)), npy=npy)
        if isinstance(x, (bool, int, Fraction, _np.integer, _np.bool_)):
            return SVal(frac_of(x), npy=npy)
        if isinstance(x, (float, _np.floating)):
            if not math.isfinite(x):
                return None
            return SVal(frac_of(x), npy=npy or isinstance(x, _np.floating))
        if isinstance(x, (complex, _np.complexfloating)):
            if _nonfinite(x):
                return None
            return SVal(frac_of(x.real), frac_of(x.imag), npy=npy or isinstance(x, _np.complexfloating))
        return None

    def with_npy(self, npy=True) -> "SVal":
        if self.npy == npy:
            return self
        return SVal(self.nr, self.ni, self.dr, self.di, npy, self.cx)

    # ---- shape
    def is_real(self) -> bool:
        return isc(self.ni) and self.ni == 0 and isc(self.di) and self.di == 0

    def is_const(self) -> bool:
        return isc(self.nr) and isc(self.ni) and isc(self.dr) and isc(self.di)

    def const(self):
        """python value of a constant SVal"""
        if self.is_real():
            return self.nr
        return complex(float(self.nr), float(self.ni))

    def _N(self):
        return (self.nr, self.ni)

    def _D(self):
        return (self.dr, self.di)

    # ---- zero tests / division
    def zero_term(self):
        return c_is_zero(self._N())

    def is_zero(self):
        t = self.zero_term()
        return t if isinstance(t, bool) else SBool(t)

    def _decide_zero(self) -> bool:
        t = self.zero_term()
        if isinstance(t, bool):
            return t
        return _eng.current().decide(t)

    def _divisor_is_zero(self) -> bool:
        """zero test for a divisor: forks, or -- under the engine policy 'assume' -- cuts the
        division-by-zero case away (recorded by the harness as outside the claim)."""
        t = self.zero_term()
        if isinstance(t, bool):
            return t
        e = _eng.current()
        if e.div_zero_policy == "assume":
            e.axiom(z3.Not(t))
            e.scratch["nonzero_cuts"] = e.scratch.get("nonzero_cuts", 0) + 1
            return False
        return e.decide(t)

    def reciprocal(self) -> Any:
        if self._divisor_is_zero():
            return _div_by_zero(SVal(ONE, npy=self.npy), self.npy, complex_=not self.is_real())
        return SVal(self.dr, self.di, self.nr, self.ni, self.npy, _cp.inv(self.cx))

    # ---- arithmetic
    def _coerce(self, o):
        v = SVal.lift(o)
        return v

    def __add__(self, o):
        b = self._coerce(o)
        if b is None:
            return _special(self, o, "add", False)
        npy = self.npy or b.npy
        if ceqs(self._D(), b._D()):
            n = cadd(self._N(), b._N())
            return SVal(n[0], n[1], self.dr, self.di, npy, _cp.add(self.cx, b.cx))
        n = cadd(cmul(self._N(), b._D()), cmul(b._N(), self._D()))
        d = cmul(self._D(), b._D())
        return SVal(n[0], n[1], d[0], d[1], npy, _cp.add(self.cx, b.cx))

    def __radd__(self, o):
        b = self._coerce(o)
        if b is None:
            return _special(self, o, "add", True)
        return b.__add__(self)

    def __neg__(self):
        return SVal(tneg(self.nr), tneg(self.ni), self.dr, self.di, self.npy, _cp.neg(self.cx))

    def __pos__(self):
        return self

    def __sub__(self, o):
        b = self._coerce(o)
        if b is None:
            return _special(self, o, "sub", False)
        return self.__add__(b.__neg__())

    def __rsub__(self, o):
        b = self._coerce(o)
        if b is None:
            return _special(self, o, "sub", True)
        return b.__add__(self.__neg__())

    def __mul__(self, o):
        b = self._coerce(o)
        if b is None:
            return _special(self, o, "mul", False)
        n = cmul(self._N(), b._N())
        d = cmul(self._D(), b._D())
        return SVal(n[0], n[1], d[0], d[1], self.npy or b.npy, _cp.mul(self.cx, b.cx))

    def __rmul__(self, o):
        b = self._coerce(o)
        if b is None:
            return _special(self, o, "mul", True)
        return b.__mul__(self)

    def __truediv__(self, o):
        b = self._coerce(o)
        if b is None:
            return _special(self, o, "div", False)
        npy = self.npy or b.npy
        if b._divisor_is_zero():
            return _div_by_zero(self, npy, complex_=not (self.is_real() and b.is_real()))
        n = cmul(self._N(), b._D())
        d = cmul(self._D(), b._N())
        return SVal(n[0], n[1], d[0], d[1], npy, _cp.mul(self.cx, _cp.inv(b.cx)))

    def __rtruediv__(self, o):
        b = self._coerce(o)
        if b is None:
            return _special(self, o, "div", True)
        return b.__truediv__(self)

    def __pow__(self, o):
        return s_pow(self, o)

    def __rpow__(self, o):
        return s_pow(o, self)

    def __abs__(self):
        return s_abs(self)

    def conjugate(self):
        return SVal(self.nr, tneg(self.ni), self.dr, tneg(self.di), self.npy)

    conj = conjugate

    # ---- parts
    @property
    def real(self):
        if self.is_real():
            return self
        if isc(self.di) and self.di == 0:
            return SVal(self.nr, ZERO, self.dr, ZERO, self.npy)
        n = tadd(tmul(self.nr, self.dr), tmul(self.ni, self.di))
        d = tadd(tmul(self.dr, self.dr), tmul(self.di, self.di))
        return SVal(n, ZERO, d, ZERO, self.npy)

    @property
    def imag(self):
        if self.is_real():
            return SVal(ZERO, npy=self.npy)
        if isc(self.di) and self.di == 0:
            return SVal(self.ni, ZERO, self.dr, ZERO, self.npy)
        n = tsub(tmul(self.ni, self.dr), tmul(self.nr, self.di))
        d = tadd(tmul(self.dr, self.dr), tmul(self.di, self.di))
        return SVal(n, ZERO, d, ZERO, self.npy)

    # ---- comparisons
    def eq_term(self, b: "SVal"):
        """z3 Bool (or python bool) for self == b"""
        if self is b:
            return True
        if self.cx is not None and b.cx is not None and not (self.is_const() and b.is_const()):
            if _cp.equal(self.cx, b.cx):
                return True
        if ceqs(self._D(), b._D()):
            l, r = self._N(), b._N()
        else:
            l, r = cmul(self._N(), b._D()), cmul(b._N(), self._D())
        dr, di = tsub(l[0], r[0]), tsub(l[1], r[1])
        if not (isc(dr) and isc(di)):
            from . import poly
            if poly.is_identically_zero(dr) and poly.is_identically_zero(di):
                return True
        return c_is_zero((dr, di))

    def __eq__(self, o):
        b = self._coerce(o)
        if b is None:
            if _nonfinite(o):
                return False
            return NotImplemented
        t = self.eq_term(b)
        return t if isinstance(t, bool) else SBool(t)

    def __ne__(self, o):
        r = self.__eq__(o)
        if r is NotImplemented:
            return r
        return s_not(r)

    def __hash__(self):
        return id(self)

    def _order(self, o, op):
        b = self._coerce(o)
        if b is None:
            if isinstance(o, (float, _np.floating)):
                if math.isnan(o):
                    return False
                pos = o > 0
                return {"lt": pos, "le": pos, "gt": not pos, "ge": not pos}[op]
            return NotImplemented
        if not (self.is_real() and b.is_real()):
            raise TypeError("'%s' not supported between complex numbers" % op)
        # a/da ? b/db  <=>  a*da*db^2 ? b*db*da^2   (da, db != 0)
        if isc(self.dr) and isc(b.dr):
            l, r = tmul(self.nr, ONE / self.dr), tmul(b.nr, ONE / b.dr)
        elif teq(self.dr, b.dr):
            dd = self.dr
            l, r = tmul(self.nr, dd), tmul(b.nr, dd)
        else:
            l = tmul(tmul(self.nr, self.dr), tmul(b.dr, b.dr))
            r = tmul(tmul(b.nr, b.dr), tmul(self.dr, self.dr))
        if isc(l) and isc(r):
            return {"lt": l < r, "le": l <= r, "gt": l > r, "ge": l >= r}[op]
        l, r = zt(l), zt(r)
        return SBool({"lt": l < r, "le": l <= r, "gt": l > r, "ge": l >= r}[op])

    def __lt__(self, o):
        return self._order(o, "lt")

    def __le__(self, o):
        return self._order(o, "le")

    def __gt__(self, o):
        return self._order(o, "gt")

    def __ge__(self, o):
        return self._order(o, "ge")

    def __bool__(self):
        return not self._decide_zero()

    # ---- conversions that would leave the symbolic domain
    def __float__(self):
        if self.is_const() and self.is_real():
            return float(self.nr)
        raise SxUnsupported("float() of a symbolic number reached C code")

    def __complex__(self):
        if self.is_const():
            return complex(float(self.nr), float(self.ni))
        raise SxUnsupported("complex() of a symbolic number reached C code")

    def __int__(self):
        if self.is_const() and self.is_real():
            return int(self.nr)
        raise SxUnsupported("int() of a symbolic number")

    def __repr__(self):
        if self.is_const():
            return "<SVal %s>" % (self.const(),)
        return "<SVal (%s + %sj)/(%s + %sj)>" % tuple(_eng._short(x, 40) for x in (self.nr, self.ni, self.dr, self.di))

    __str__ = __repr__

    def __format__(self, spec):
        return repr(self)

    # numpy scalar look-alikes
    def astype(self, dtype):
        return self

    def item(self):
        return self

    @property
    def shape(self):
        return ()

    @property
    def size(self):
        return 1

    @property
    def ndim(self):
        return 0

    def real_term(self):
        """z3 term of a real polynomial value (D constant)"""
        if not self.is_real() or not isc(self.dr):
            raise SxUnsupported("real_term of non-polynomial")
        return zt(tmul(self.nr, ONE / self.dr))


def sreal(name: str, register: bool = True, npy: bool = False) -> SVal:
    t = _eng.current().fresh_real(name, register)
    return SVal(t, npy=npy, cx=_cp.var(str(t)))


def scomplex(name: str, register: bool = True, npy: bool = True) -> SVal:
    e = _eng.current()
    re_ = e.fresh_real(name + ".re", register)
    return SVal(re_, e.fresh_real(name + ".im", register), npy=npy, cx=_cp.var(str(re_)[:-3]))


def is_symbolic(x) -> bool:
    return getattr(x, "_sx_symbolic", False)


# --------------------------------------------------------------------------- specials
class CInf:
    """A complex value with an infinite part whose other part is an unspecified finite number:
    the result of <finite symbolic complex> + (inf+0j) and friends.  numpy.isinf is True, numpy.isnan
    False.  Only the operations the circuit code applies to such values are modelled."""
    _sx_symbolic = True
    npy = True

    def __repr__(self):
        return "<CInf>"

    __str__ = __repr__

    def __format__(self, spec):
        return "<CInf>"

    def _fin(self, o):
        v = SVal.lift(o)
        if v is None:
            if isinstance(o, CInf):
                return None
            if _nonfinite(o) and not (isinstance(o, (float, _np.floating)) and math.isnan(o)) \
                    and not (isinstance(o, (complex, _np.complexfloating)) and (math.isnan(o.real) or math.isnan(o.imag))):
                return None
            raise SxUnsupported("CInf combined with nan")
        return v

    def __add__(self, o):
        # every CInf stands for (+inf) + (finite)j: it only arises from <finite> + (inf+0j)
        if isinstance(o, CInf):
            return self
        if self._fin(o) is None:
            oc = complex(o)
            if oc.real == math.inf and math.isfinite(oc.imag):
                return self
            raise SxUnsupported("inf + inf of unknown signs")
        return self

    __radd__ = __add__

    def __sub__(self, o):
        if self._fin(o) is None:
            raise SxUnsupported("inf - inf")
        return self

    def __rsub__(self, o):
        raise SxUnsupported("x - inf")

    def __mul__(self, o):
        v = self._fin(o)
        if v is None:
            raise SxUnsupported("inf * inf")
        if v._decide_zero():
            return _np.complex128(complex(math.nan, math.nan))
        raise SxUnsupported("inf * finite complex (the parts of the product depend on signs)")

    __rmul__ = __mul__

    def __rtruediv__(self, o):
        v = self._fin(o)
        if v is None:
            raise SxUnsupported("inf / inf")
        return SVal(ZERO, npy=True)

    def __truediv__(self, o):
        raise SxUnsupported("inf / x")

    def __eq__(self, o):
        return False

    def __ne__(self, o):
        return True

    def __hash__(self):
        return id(self)

    def __bool__(self):
        return True

    def astype(self, dtype):
        return self

    @property
    def real(self):
        raise SxUnsupported("real part of an unspecified infinity")

    imag = real


def _div_by_zero(num: SVal, npy: bool, complex_: bool):
    if not npy:
        raise ZeroDivisionError("division by zero")
    if num._decide_zero():
        return _np.complex128(complex(math.nan, math.nan)) if complex_ else _np.float64(math.nan)
    if complex_:
        return _np.complex128(complex(math.inf, math.nan))
    if bool(num > 0):
        return _np.float64(math.inf)
    return _np.float64(-math.inf)


def _special(a: SVal, o, op: str, reflected: bool):
    """a (finite symbolic) op o, where o is a concrete non-finite float/complex."""
    if not _nonfinite(o):
        return NotImplemented
    if isinstance(o, (complex, _np.complexfloating)) or not a.is_real():
        if isinstance(o, (float, _np.floating)) and math.isnan(o):
            return _np.complex128(complex(math.nan, math.nan))
        oc = complex(o)
        if math.isnan(oc.real) or math.isnan(oc.imag):
            if op in ("add", "sub"):
                raise SxUnsupported("arithmetic between a symbolic number and a non-finite complex (nan part)")
            raise SxUnsupported("arithmetic between a symbolic number and a non-finite complex")
        if op == "add" and oc.real == math.inf and math.isfinite(oc.imag):
            return CInf()
        if op == "div" and not reflected:
            return SVal(ZERO, npy=True)      # finite / inf
        raise SxUnsupported("arithmetic between a symbolic number and a non-finite complex")
    o = float(o)
    if math.isnan(o):
        return _np.float64(math.nan) if a.npy else math.nan
    wrap = _np.float64 if a.npy or isinstance(o, _np.floating) else float
    if op == "add":
        return wrap(o)
    if op == "sub":
        return wrap(o) if reflected else wrap(-o)
    if op == "mul":
        if a._decide_zero():
            return wrap(math.nan)
        return wrap(o) if bool(a > 0) else wrap(-o)
    if op == "div":
        if reflected:   # inf / a
            if a._decide_zero():
                if not a.npy:
                    raise ZeroDivisionError("float division by zero")
                return wrap(o)
            return wrap(o) if bool(a > 0) else wrap(-o)
        return SVal(ZERO, npy=a.npy)
    raise SxUnsupported("special op " + op)


# --------------------------------------------------------------------------- uninterpreted functions
PI = None   # set per path


def pi_val() -> SVal:
    """One symbolic constant for numpy.pi / math.pi / sympy.pi."""
    e = _eng.current()
    p = e.scratch.get("pi")
    if p is None:
        t = z3.Real("pi")
        e.axiom(z3.And(t > z3.Q(314159, 100000), t < z3.Q(31416, 10000)))
        p = SVal(t, cx=_cp.var("pi"))
        e.scratch["pi"] = p
    return p


def _args_equal_term(xs: List[SVal], ys: List[SVal]):
    ts = []
    for x, y in zip(xs, ys):
        t = x.eq_term(y)
        if t is False:
            return False
        if t is not True:
            ts.append(t)
    if not ts:
        return True
    return z3.And(*ts)


def uf(name: str, args: List[Any], real_result: bool = False, axioms=None) -> SVal:
    """Application of an uninterpreted function: a fresh atom (pair), reused iff the solver proves
    the arguments equal to those of an earlier application (eager congruence)."""
    e = _eng.current()
    args = [SVal.lift(a) for a in args]
    table = e.scratch.setdefault("uf:" + name, [])
    pending = []
    for old_args, res in table:
        t = _args_equal_term(old_args, args)
        if t is True:
            return res
        if t is False:
            continue
        if _eng._ast_size(t, 300) >= 300:
            # too big for a quick congruence query: treated as (possibly) different arguments.
            # Sound: a fresh atom only loses the congruence fact, it never adds a false one.
            continue
        if e.implied(t):
            return res
        pending.append((t, res))
    k = len(table)
    base = "%s@%d" % (name, k)
    if real_result:
        res = SVal(z3.Real(base + ".re"), npy=True, cx=_cp.var(base))
    else:
        res = SVal(z3.Real(base + ".re"), z3.Real(base + ".im"), npy=True, cx=_cp.var(base))
    for t, old in pending:   # congruence for the not-provably-equal earlier applications
        e.axiom(z3.Implies(t, old.eq_term(res) if not isinstance(old.eq_term(res), bool) else z3.BoolVal(old.eq_term(res))))
    table.append((args, res))
    if axioms is not None:
        axioms(res, *args)
    return res


def _nonzero_result(res: SVal, base: SVal):
    e = _eng.current()
    bz, rz = base.zero_term(), res.zero_term()
    if bz is True:
        return
    if bz is False:
        e.axiom(z3.Not(rz))
    else:
        e.axiom(z3.Implies(z3.Not(bz), z3.Not(rz)))


def s_pow(base, expo, _norewrite=False) -> Any:
    b, x = SVal.lift(base), SVal.lift(expo)
    if b is None or x is None:
        raise SxUnsupported("power with a non-finite operand")
    npy = b.npy or x.npy
    if x.is_const() and x.is_real() and x.nr.denominator == 1 and abs(x.nr) <= 16:
        n = int(x.nr)
        if n == 0:
            return SVal(ONE, npy=npy)
        root = _root_of(b)
        if root is not None and n % root[1] == 0 and abs(n) >= root[1]:
            # (z**(1/q))**(q*m) == z**m for principal roots (sympy applies the same simplification)
            return s_pow(root[0].with_npy(npy), n // root[1])
        r = b
        for _ in range(abs(n) - 1):
            r = r * b
        return r.reciprocal() if n < 0 else r
    if b.is_const() and x.is_const():
        return SVal.lift(complex(b.const()) ** complex(x.const()) if not (b.is_real() and x.is_real()) else float(b.nr) ** float(x.nr), npy=npy)
    # z**(-e) -> 1/z**e when the exponent is syntactically negative
    if not _norewrite and _syntactically_negative(x):
        nx = -x
        if not isc(nx.nr):
            nx = SVal(z3.simplify(nx.nr), nx.ni, nx.dr, nx.di, nx.npy)
        r = s_pow(b, nx, _norewrite=True)
        return r.reciprocal() if isinstance(r, SVal) else 1 / r
    real_res = b.is_real() and x.is_real() and _eng.current().implied(b > 0)
    nonneg = False
    if not real_res and b.npy and b.is_real() and x.is_real() and x.is_const() and x.nr > 0:
        # a numpy float raised to a positive real power: nan for a negative base (numpy does not switch to complex numbers),
        # a non-negative real otherwise
        if bool(b < 0):
            return _np.float64(math.nan)
        real_res = nonneg = True

    def ax(res, bb, xx):
        _nonzero_result(res, bb)
        if real_res:
            _eng.current().axiom(res.nr >= 0 if nonneg else res.nr > 0)
        # (z ** (1/q)) ** q == z   (principal roots; sympy simplifies sqrt(z)**2 to z on its own)
        if xx.is_const() and xx.is_real() and xx.nr.numerator == 1 and 2 <= xx.nr.denominator <= 4:
            rq = res
            for _ in range(xx.nr.denominator - 1):
                rq = rq * res
            tq = rq.eq_term(bb)
            if not isinstance(tq, bool):
                _eng.current().axiom(tq)
        # z ** 1 == z
        t = xx.eq_term(SVal(ONE))
        if t is not False:
            eqr = res.eq_term(bb)
            if not isinstance(eqr, bool):
                _eng.current().axiom(eqr if t is True else z3.Implies(t, eqr))
    return uf("pow", [b, x], real_result=real_res, axioms=ax).with_npy(npy)


def _root_of(b: SVal):
    """(z, q) if b is exactly the atom standing for z**(1/q)"""
    if not (isc(b.dr) and b.dr == 1 and isc(b.di) and b.di == 0) or isc(b.nr):
        return None
    try:
        if not z3.is_const(b.nr) or b.nr.decl().kind() != z3.Z3_OP_UNINTERPRETED:
            return None
        nm = str(b.nr)
    except Exception:
        return None
    if not (nm.startswith("pow@") and nm.endswith(".re")):
        return None
    if not isc(b.ni):
        if str(b.ni) != nm[:-3] + ".im":
            return None
    k = int(nm[4:-3])
    table = _eng.current().scratch.get("uf:pow", [])
    if k >= len(table):
        return None
    args, res = table[k]
    base, ex = args
    if ex.is_const() and ex.is_real() and ex.nr.numerator == 1 and 2 <= ex.nr.denominator <= 4:
        return base, ex.nr.denominator
    return None


def _syntactically_negative(x: SVal) -> bool:
    """normal-form heuristic only: z**(-e) == 1/z**e holds for every e (principal powers)"""
    if not x.is_real():
        return False
    t = x.nr
    if isc(t):
        return t < 0
    if z3.is_app(t):
        k = t.decl().kind()
        if k == z3.Z3_OP_UMINUS:
            return True
        if k == z3.Z3_OP_MUL and t.num_args() >= 1:
            a0 = t.arg(0)
            if z3.is_rational_value(a0) and a0.numerator_as_long() < 0:
                return True
    return False


def s_sqrt(x) -> Any:
    return s_pow(x, Fraction(1, 2))


def s_abs(x) -> Any:
    v = SVal.lift(x)
    if v is None:
        return abs(x)
    if v.is_const():
        c = v.const()
        return SVal(abs(c) if isinstance(c, Fraction) else frac_of(abs(c)), npy=v.npy)
    if v.is_real():
        n, d = zt(v.nr), v.dr
        nn = z3.If(n >= 0, n, -n)
        if isc(d):
            return SVal(nn, ZERO, abs(d), ZERO, v.npy)
        return SVal(nn, ZERO, z3.If(d >= 0, d, -d), ZERO, v.npy)
    re, im = v.real, v.imag
    sq = re * re + im * im

    def ax(res, arg):
        e = _eng.current()
        e.axiom(res.nr >= 0)
        t = (res * res).eq_term(arg)
        if not isinstance(t, bool):
            e.axiom(t)
    return uf("sqrt_nonneg", [sq], real_result=True, axioms=ax).with_npy(v.npy)


def s_fun(name: str, x, real_if_real: bool = True, nonzero: bool = False, positive: bool = False) -> SVal:
    v = SVal.lift(x)
    if v is None:
        raise SxUnsupported("%s of a non-finite value" % name)
    rr = real_if_real and v.is_real()

    def ax(res, arg):
        e = _eng.current()
        if positive and rr:
            e.axiom(res.nr > 0)
        elif nonzero:
            e.axiom(z3.Not(res.zero_term()))
        if rr and name in _INCREASING:
            # strictly increasing on the reals: order of the values = order of the arguments, instantiated against the
            # (few) earlier applications of the same function
            earlier = [(a[0], r) for a, r in e.scratch.get("uf:" + name, []) if r is not res and a[0].is_real()]
            for oa, ores in earlier[-_MONO_MAX:]:
                for lt_a, lt_r in (((oa < arg), (ores < res)), ((arg < oa), (res < ores))):      # both strict orders: injective too
                    ta = lt_a.term if hasattr(lt_a, "term") else z3.BoolVal(bool(lt_a))
                    tr = lt_r.term if hasattr(lt_r, "term") else z3.BoolVal(bool(lt_r))
                    if _eng._ast_size(ta, 20000) < 20000:
                        e.axiom(ta == tr)
    return uf(name, [v], real_result=rr, axioms=ax).with_npy(True)


_INCREASING = {"log", "log10", "log2", "exp"}
_MONO_MAX = 6
