"""sx.loader -- loads pyimpspec.* from /repo/src (the current working tree) on every run through a
fixed, semantics-preserving AST rewrite, so that the *real source* runs on symbolic values.

Rewrite (nothing else in the source is touched):
    a in b / a not in b   ->  __sx_in__(a, b) / not __sx_in__(a, b)
    a is b / a is not b   ->  __sx_is__(a, b) / not __sx_is__(a, b)
    <expr> % <expr>       ->  __sx_mod__(l, r)
After a module body has run, module globals that *are* numpy (etc.) callables with a shim
counterpart are rebound to the shim (identity table), and `float int isinstance type str len
complex bool` are shadowed in the module namespace by symbolic-aware versions.  With no symbolic
operand every helper falls through to ordinary Python semantics.
"""
from __future__ import annotations

import ast
import hashlib
import importlib.abc
import importlib.machinery
import importlib.util
import os
import sys
from typing import Dict, List

REPO_SRC = os.environ.get("SX_REPO_SRC", "/repo/src")
PREFIX = "pyimpspec"

REWRITE_SITES = 0
SOURCE_HASHES: Dict[str, str] = {}
LOADED: List[str] = []


class _Rewriter(ast.NodeTransformer):
    def __init__(self):
        self.sites = 0

    def visit_Compare(self, node: ast.Compare):
        self.generic_visit(node)
        if len(node.ops) != 1:
            if any(isinstance(o, (ast.In, ast.NotIn, ast.Is, ast.IsNot)) for o in node.ops):
                # chained comparison with in/is: expand  a op1 b op2 c  ->  (a op1 b) and (b op2 c)
                # only when the middle operands are simple names/constants (no double evaluation)
                if all(isinstance(c, (ast.Name, ast.Constant)) for c in node.comparators[:-1]):
                    parts = []
                    left = node.left
                    for op, right in zip(node.ops, node.comparators):
                        parts.append(self.visit_Compare(ast.Compare(left=left, ops=[op], comparators=[right])))
                        left = right
                    return ast.copy_location(ast.BoolOp(op=ast.And(), values=parts), node)
            return node
        op = node.ops[0]
        if isinstance(op, (ast.In, ast.NotIn)):
            fn = "__sx_in__"
        elif isinstance(op, (ast.Is, ast.IsNot)):
            # `x is None` / `x is not None` on non-lazy values: identity is fine and cheap, but lazy
            # objects need the hook; keep the hook for everything.
            fn = "__sx_is__"
        else:
            return node
        self.sites += 1
        call = ast.Call(func=ast.Name(id=fn, ctx=ast.Load()), args=[node.left, node.comparators[0]], keywords=[])
        if isinstance(op, (ast.NotIn, ast.IsNot)):
            call = ast.UnaryOp(op=ast.Not(), operand=call)
        return ast.copy_location(call, node)

    def visit_BinOp(self, node: ast.BinOp):
        self.generic_visit(node)
        if isinstance(node.op, ast.Mod):
            self.sites += 1
            return ast.copy_location(
                ast.Call(func=ast.Name(id="__sx_mod__", ctx=ast.Load()), args=[node.left, node.right], keywords=[]),
                node)
        return node


def rewrite_source(src: str, filename: str):
    tree = ast.parse(src, filename)
    rw = _Rewriter()
    tree = rw.visit(tree)
    ast.fix_missing_locations(tree)
    return compile(tree, filename, "exec", dont_inherit=True), rw.sites


class _Loader(importlib.abc.Loader):
    def __init__(self, fullname, path, is_pkg):
        self.fullname, self.path, self.is_pkg = fullname, path, is_pkg

    def create_module(self, spec):
        return None

    def exec_module(self, module):
        global REWRITE_SITES
        from . import shims
        with open(self.path, "rb") as fp:
            raw = fp.read()
        SOURCE_HASHES[self.fullname] = hashlib.sha256(raw).hexdigest()[:16]
        code, sites = rewrite_source(raw.decode("utf-8"), self.path)
        REWRITE_SITES += sites
        shims.install_builtins(module.__dict__)
        exec(code, module.__dict__)
        shims.rebind_globals(module.__dict__)
        LOADED.append(self.fullname)


class _Finder(importlib.abc.MetaPathFinder):
    def find_spec(self, fullname, path, target=None):
        if fullname != PREFIX and not fullname.startswith(PREFIX + "."):
            return None
        rel = fullname.split(".")
        base = os.path.join(REPO_SRC, *rel)
        if os.path.isdir(base) and os.path.isfile(os.path.join(base, "__init__.py")):
            p = os.path.join(base, "__init__.py")
            spec = importlib.machinery.ModuleSpec(fullname, _Loader(fullname, p, True), origin=p, is_package=True)
            spec.submodule_search_locations = [base]
            spec.has_location = True
            return spec
        if os.path.isfile(base + ".py"):
            p = base + ".py"
            spec = importlib.machinery.ModuleSpec(fullname, _Loader(fullname, p, False), origin=p)
            spec.has_location = True
            return spec
        return None


_INSTALLED = False


def install():
    """Install the import hook (must happen before pyimpspec is first imported)."""
    global _INSTALLED
    if _INSTALLED:
        return
    for m in list(sys.modules):
        if m == PREFIX or m.startswith(PREFIX + "."):
            raise RuntimeError("pyimpspec was imported before sx.loader.install()")
    sys.meta_path.insert(0, _Finder())
    _INSTALLED = True


def functions_fingerprint(objs) -> List[str]:
    """qualified names + source hash of the functions a check executes (for evidence)"""
    import inspect
    out = []
    for o in objs:
        try:
            src = inspect.getsource(o)
            h = hashlib.sha256(src.encode()).hexdigest()[:12]
        except Exception:
            h = "?"
        out.append("%s.%s@%s" % (getattr(o, "__module__", "?"), getattr(o, "__qualname__", getattr(o, "__name__", "?")), h))
    return out
