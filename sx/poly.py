"""sx.poly -- expands a z3 real term into a sparse polynomial normal form (rational coefficients,
non-arithmetic subterms as indeterminates).  Used as a *simplifier* in front of the solver: a term
whose normal form is the zero polynomial is identically 0, so the query `term != 0` is `false`
before z3 sees it; anything else is handed to z3 unchanged."""
from __future__ import annotations

from fractions import Fraction
from typing import Dict, Optional, Tuple

import z3

Mono = Tuple[Tuple[int, int], ...]
Poly = Dict[Mono, Fraction]

_MEMO: Dict[int, Tuple[z3.ExprRef, Optional[Poly]]] = {}
MAX_TERMS = int(__import__("os").environ.get("SX_POLY_MAX", "60000"))
STATS = {"calls": 0, "zero": 0, "nonzero": 0, "gave_up": 0}


class TooBig(Exception):
    pass


def _mul_mono(a: Mono, b: Mono) -> Mono:
    if not a:
        return b
    if not b:
        return a
    d = dict(a)
    for v, p in b:
        d[v] = d.get(v, 0) + p
    return tuple(sorted(d.items()))


def p_add(a: Poly, b: Poly, sign: int = 1) -> Poly:
    if len(a) < len(b) and sign == 1:
        a, b = b, a
    out = dict(a)
    for m, c in b.items():
        c = c if sign == 1 else -c
        n = out.get(m)
        if n is None:
            out[m] = c
        else:
            n = n + c
            if n == 0:
                del out[m]
            else:
                out[m] = n
    return out


def p_mul(a: Poly, b: Poly) -> Poly:
    if not a or not b:
        return {}
    if len(a) * len(b) > 4 * MAX_TERMS * 50:
        raise TooBig()
    out: Poly = {}
    for m1, c1 in a.items():
        for m2, c2 in b.items():
            m = _mul_mono(m1, m2)
            c = c1 * c2
            n = out.get(m)
            if n is None:
                out[m] = c
            else:
                n = n + c
                if n == 0:
                    del out[m]
                else:
                    out[m] = n
        if len(out) > MAX_TERMS:
            raise TooBig()
    return out


def p_const(c: Fraction) -> Poly:
    return {(): c} if c != 0 else {}


def normalize(t: z3.ExprRef) -> Optional[Poly]:
    """polynomial normal form of a z3 real term, or None when it grows beyond MAX_TERMS"""
    try:
        return _norm(t)
    except TooBig:
        return None
    except RecursionError:
        return None


def _norm(t: z3.ExprRef) -> Poly:
    tid = t.get_id()
    hit = _MEMO.get(tid)
    if hit is not None:
        if hit[1] is None:
            raise TooBig()
        return hit[1]
    try:
        res = _norm_uncached(t)
    except TooBig:
        _MEMO[tid] = (t, None)
        raise
    _MEMO[tid] = (t, res)
    if len(_MEMO) > 400000:
        _MEMO.clear()
    return res


def _norm_uncached(t: z3.ExprRef) -> Poly:
    if z3.is_rational_value(t):
        return p_const(Fraction(t.numerator_as_long(), t.denominator_as_long()))
    if z3.is_int_value(t):
        return p_const(Fraction(t.as_long()))
    if z3.is_app(t):
        k = t.decl().kind()
        if k == z3.Z3_OP_ADD:
            acc: Poly = {}
            for a in t.children():
                acc = p_add(acc, _norm(a))
            return acc
        if k == z3.Z3_OP_SUB:
            ch = t.children()
            acc = _norm(ch[0])
            for a in ch[1:]:
                acc = p_add(acc, _norm(a), -1)
            return acc
        if k == z3.Z3_OP_UMINUS:
            return {m: -c for m, c in _norm(t.arg(0)).items()}
        if k == z3.Z3_OP_MUL:
            acc = {(): Fraction(1)}
            for a in t.children():
                acc = p_mul(acc, _norm(a))
            return acc
        if k == z3.Z3_OP_TO_REAL:
            return {((t.get_id(), 1),): Fraction(1)}
        if k == z3.Z3_OP_POWER:
            b, e = t.arg(0), t.arg(1)
            if z3.is_rational_value(e) and e.denominator_as_long() == 1 and 0 <= e.numerator_as_long() <= 8:
                acc = {(): Fraction(1)}
                base = _norm(b)
                for _ in range(e.numerator_as_long()):
                    acc = p_mul(acc, base)
                return acc
        if k == z3.Z3_OP_DIV:
            d = t.arg(1)
            if z3.is_rational_value(d) and d.numerator_as_long() != 0:
                c = Fraction(d.denominator_as_long(), d.numerator_as_long())
                return {m: v * c for m, v in _norm(t.arg(0)).items()}
    # indeterminate: an uninterpreted constant or any non-polynomial subterm
    return {((t.get_id(), 1),): Fraction(1)}


def is_identically_zero(t) -> Optional[bool]:
    """True: the term is the zero polynomial.  False: it is a non-zero polynomial (it may still
    vanish for particular values).  None: gave up."""
    STATS["calls"] += 1
    if isinstance(t, Fraction):
        return t == 0
    p = normalize(t)
    if p is None:
        STATS["gave_up"] += 1
        return None
    if not p:
        STATS["zero"] += 1
        return True
    STATS["nonzero"] += 1
    return False
