"""sx.sym -- evaluates a sympy expression over symbolic values (the *equation* side of the
translation validation): the same field operations, the same uninterpreted atoms."""
from __future__ import annotations

from fractions import Fraction
from typing import Any, Dict

import sympy

from .engine import SxUnsupported
from .values import SVal, ZERO, ONE, pi_val, s_fun, s_pow, frac_of

I_UNIT = None


def _i():
    return SVal(ZERO, ONE, npy=True)


def _tanh(x):
    return s_tanh(x)


def s_tanh(x):
    return _odd_fun("tanh", x)


def s_sinh(x):
    return _odd_fun("sinh", x)


def s_cosh(x):
    return s_fun("cosh", x)


def _odd_fun(name, x):
    """tanh / sinh: zero exactly at zero argument (on the principal strip); f(0) = 0"""
    import z3
    from . import engine as _eng
    from .values import uf
    v = SVal.lift(x)
    if v is None:
        raise SxUnsupported("%s of a non-finite value" % name)
    if v.is_const() and v.nr == 0 and v.ni == 0:
        return SVal(ZERO, npy=True)

    def ax(res, arg):
        e = _eng.current()
        az, rz = arg.zero_term(), res.zero_term()
        if az is False:
            e.axiom(z3.Not(rz))
        elif az is not True:
            e.axiom(z3.Not(az) == z3.Not(rz))
    return uf(name, [v], real_result=v.is_real(), axioms=ax).with_npy(True)


def eval_sympy(expr, env: Dict[str, Any]):
    """value of `expr` with symbols taken from env (values: SVal, python numbers, +-inf)"""
    if isinstance(expr, sympy.Symbol):
        if expr.name not in env:
            raise KeyError("free symbol %s has no value" % expr.name)
        return env[expr.name]
    if expr is sympy.I:
        return _i()
    if expr is sympy.pi:
        return pi_val()
    if expr is sympy.oo:
        return float("inf")
    if expr is -sympy.oo:
        return float("-inf")
    if expr is sympy.zoo or expr is sympy.nan:
        raise SxUnsupported("sympy expression contains %s" % expr)
    if isinstance(expr, sympy.Integer):
        return Fraction(int(expr))
    if isinstance(expr, sympy.Rational):
        return Fraction(int(expr.p), int(expr.q))
    if isinstance(expr, sympy.Float):
        return frac_of(float(expr))
    if isinstance(expr, sympy.Add):
        it = iter(expr.args)
        tot = eval_sympy(next(it), env)
        for a in it:
            tot = tot + eval_sympy(a, env)
        return tot
    if isinstance(expr, sympy.Mul):
        it = iter(expr.args)
        tot = eval_sympy(next(it), env)
        for a in it:
            tot = tot * eval_sympy(a, env)
        return tot
    if isinstance(expr, sympy.Pow):
        b = eval_sympy(expr.base, env)
        x = eval_sympy(expr.exp, env)
        if isinstance(b, Fraction):
            b = SVal(b, npy=True)
        if isinstance(b, SVal):
            b = b.with_npy(True)
        return s_pow(b, x)
    if isinstance(expr, sympy.tanh):
        return s_tanh(eval_sympy(expr.args[0], env))
    if isinstance(expr, sympy.coth):
        t = s_tanh(eval_sympy(expr.args[0], env))
        return 1 / t
    if isinstance(expr, sympy.sinh):
        return s_sinh(eval_sympy(expr.args[0], env))
    if isinstance(expr, sympy.cosh):
        return s_cosh(eval_sympy(expr.args[0], env))
    if isinstance(expr, sympy.exp):
        return s_fun("exp", eval_sympy(expr.args[0], env), nonzero=True, positive=True)
    if isinstance(expr, sympy.log):
        return s_fun("log", eval_sympy(expr.args[0], env))
    raise SxUnsupported("sympy node %s" % type(expr).__name__)
