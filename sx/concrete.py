"""sx.concrete -- runs a harness on the concrete values of a solver model (a *witness*) against the
plain, unrewritten library.  Same harness code, same input names; every `check` is evaluated in
ordinary Python.  Used by checks/replay.py in a fresh interpreter."""
from __future__ import annotations

from fractions import Fraction
from typing import Any, Dict, List, Optional

from .engine import PathAbort


def _num(v) -> float:
    if isinstance(v, str):
        if "/" in v:
            return float(Fraction(v))
        return float(v.rstrip("?"))
    return float(v)


class ConcreteEngine:
    symbolic = False

    def __init__(self, witness: Dict[str, Any]):
        self.witness = witness
        self.counters: Dict[str, int] = {}
        self.failed: List[str] = []
        self.details: List[str] = []
        self.scratch: Dict[str, Any] = {}
        self.missing: List[str] = []
        self.symbolic_pi = False
        self.div_zero_policy = "fork"

    def _name(self, base: str) -> str:
        n = self.counters.get(base, 0)
        self.counters[base] = n + 1
        return "%s#%d" % (base, n) if n else base

    def _get(self, base: str, default):
        nm = self._name(base)
        if nm not in self.witness or self.witness[nm] is None:
            self.missing.append(nm)
            return default
        return self.witness[nm]

    def real(self, name: str, npy: bool = False):
        return _num(self._get(name, 0.0))

    def boolean(self, name: str, npy: bool = False):
        v = bool(self._get(name, False))
        if npy:
            import numpy
            return numpy.bool_(v)
        return v

    def integer(self, name: str, lo=None, hi=None):
        return int(self._get(name, lo or 0))

    def complex(self, name: str, npy: bool = True):
        return complex(_num(self._get(name + ".re", 0.0)), _num(self._get(name + ".im", 0.0)))

    def choice(self, n: int, label: str = "choice") -> int:
        if n <= 1:
            return 0
        return int(self._get(label, 0))

    def float_any(self, name: str, kinds=("finite", "+inf", "-inf", "nan")):
        k = kinds[self.choice(len(kinds), name + ".kind")]
        if k == "finite":
            return self.real(name)
        return {"+inf": float("inf"), "-inf": float("-inf"), "nan": float("nan")}[k]

    def note_input(self, name, value):
        pass

    def assume(self, cond):
        if not cond:
            raise PathAbort("witness does not satisfy an assumption")

    def axiom(self, term):
        pass

    def check(self, cond, label: str, detail: Any = None) -> bool:
        if not cond:
            self.failed.append(label)
            d = detail() if callable(detail) else detail
            self.details.append("%s: %s" % (label, d))
            return False
        return True

    def fail(self, label, detail=None):
        self.check(False, label, detail)

    def reached(self, label):
        pass

    def log(self, msg):
        pass

    def decide(self, term):
        return bool(term)

    def implied(self, cond, light=True):
        return bool(cond)

    def possible(self, cond):
        return bool(cond)


def run_concrete(harness, witness: Dict[str, Any]):
    eng = ConcreteEngine(witness)
    try:
        harness(eng)
    except PathAbort as e:
        if eng.failed:
            return True, ("; ".join(eng.details) + " (then: %s)" % e)[:1500], eng
        return False, "aborted: %s" % e, eng
    return bool(eng.failed), "; ".join(eng.details)[:1500], eng
