"""sx.cpoly -- complex-level provenance of symbolic numbers: every SVal produced purely by field
operations (+ - * / integer powers) from named indeterminates (symbolic inputs, uninterpreted
atoms) carries an expression node; on demand the node is normalised to a quotient N/D of sparse
polynomials with Gaussian-rational coefficients.  `N1*D2 - N2*D1 == 0` as a polynomial proves two
values equal for every value of the indeterminates (the converse is left to the solver)."""
from __future__ import annotations

from fractions import Fraction
from typing import Dict, Optional, Tuple

Mono = Tuple[Tuple[str, int], ...]
Coef = Tuple[Fraction, Fraction]
CPoly = Dict[Mono, Coef]

MAX_TERMS = 400000
STATS = {"equal_calls": 0, "proved": 0, "not_identical": 0, "gave_up": 0}


class TooBig(Exception):
    pass


class Node:
    __slots__ = ("op", "a", "b", "nd")

    def __init__(self, op, a=None, b=None):
        self.op, self.a, self.b = op, a, b
        self.nd = None


def var(name: str) -> Node:
    return Node("var", name)


def const(re: Fraction, im: Fraction = Fraction(0)) -> Node:
    return Node("const", (re, im))


def add(x: Optional[Node], y: Optional[Node]) -> Optional[Node]:
    if x is None or y is None:
        return None
    return Node("add", x, y)


def mul(x: Optional[Node], y: Optional[Node]) -> Optional[Node]:
    if x is None or y is None:
        return None
    return Node("mul", x, y)


def neg(x: Optional[Node]) -> Optional[Node]:
    if x is None:
        return None
    return Node("mul", const(Fraction(-1)), x)


def inv(x: Optional[Node]) -> Optional[Node]:
    if x is None:
        return None
    return Node("inv", x)


# ---- polynomial arithmetic
def _cm(a: Coef, b: Coef) -> Coef:
    if a[1] == 0:
        return (a[0] * b[0], a[0] * b[1])
    if b[1] == 0:
        return (a[0] * b[0], a[1] * b[0])
    return (a[0] * b[0] - a[1] * b[1], a[0] * b[1] + a[1] * b[0])


def _mm(a: Mono, b: Mono) -> Mono:
    if not a:
        return b
    if not b:
        return a
    d = dict(a)
    for v, p in b:
        d[v] = d.get(v, 0) + p
    return tuple(sorted(d.items()))


def p_add(a: CPoly, b: CPoly, sign: int = 1) -> CPoly:
    out = dict(a)
    for m, c in b.items():
        if sign != 1:
            c = (-c[0], -c[1])
        n = out.get(m)
        if n is None:
            out[m] = c
        else:
            n = (n[0] + c[0], n[1] + c[1])
            if n[0] == 0 and n[1] == 0:
                del out[m]
            else:
                out[m] = n
    return out


def p_mul(a: CPoly, b: CPoly) -> CPoly:
    if not a or not b:
        return {}
    if len(a) == 1 and () in a and a[()] == (1, 0):
        return b
    if len(b) == 1 and () in b and b[()] == (1, 0):
        return a
    if len(a) * len(b) > 50 * MAX_TERMS:
        raise TooBig()
    out: CPoly = {}
    for m1, c1 in a.items():
        for m2, c2 in b.items():
            m = _mm(m1, m2)
            c = _cm(c1, c2)
            n = out.get(m)
            if n is None:
                out[m] = c
            else:
                n = (n[0] + c[0], n[1] + c[1])
                if n[0] == 0 and n[1] == 0:
                    del out[m]
                else:
                    out[m] = n
        if len(out) > MAX_TERMS:
            raise TooBig()
    return out


ONE: CPoly = {(): (Fraction(1), Fraction(0))}


def _same(a: CPoly, b: CPoly) -> bool:
    return a is b or a == b


def nd(x: Node):
    """(N, D) of a node; iterative post-order to keep Python recursion shallow"""
    if x.nd is not None:
        return x.nd
    stack = [x]
    while stack:
        n = stack[-1]
        if n.nd is not None:
            stack.pop()
            continue
        if n.op == "var":
            n.nd = ({((n.a, 1),): (Fraction(1), Fraction(0))}, ONE)
            stack.pop()
            continue
        if n.op == "const":
            c = n.a
            n.nd = ({(): c} if (c[0] != 0 or c[1] != 0) else {}, ONE)
            stack.pop()
            continue
        kids = [n.a] if n.op == "inv" else [n.a, n.b]
        pending = [k for k in kids if k.nd is None]
        if pending:
            stack.extend(pending)
            continue
        if n.op == "inv":
            N, D = n.a.nd
            n.nd = (D, N)
        elif n.op == "mul":
            (N1, D1), (N2, D2) = n.a.nd, n.b.nd
            n.nd = (p_mul(N1, N2), p_mul(D1, D2))
        else:
            (N1, D1), (N2, D2) = n.a.nd, n.b.nd
            if _same(D1, D2):
                n.nd = (p_add(N1, N2), D1)
            else:
                n.nd = (p_add(p_mul(N1, D2), p_mul(N2, D1)), p_mul(D1, D2))
        stack.pop()
    return x.nd


def equal(x: Optional[Node], y: Optional[Node]) -> Optional[bool]:
    """True: identical rational functions.  False: different normal forms (may still agree under the
    path condition).  None: no provenance / too big."""
    if x is None or y is None:
        return None
    STATS["equal_calls"] += 1
    try:
        (N1, D1), (N2, D2) = nd(x), nd(y)
        if _same(D1, D2):
            diff = p_add(N1, N2, -1)
        else:
            diff = p_add(p_mul(N1, D2), p_mul(N2, D1), -1)
    except TooBig:
        STATS["gave_up"] += 1
        return None
    if not diff:
        STATS["proved"] += 1
        return True
    STATS["not_identical"] += 1
    return False
