"""sx.engine -- replay-based dynamic symbolic execution over z3.

One *path* = one concrete run of a harness (ordinary Python calling the real pyimpspec code)
in which every branch on a symbolic boolean asks `Engine.decide`.  The engine follows a recorded
decision prefix, then extends it, queuing the untaken feasible alternative.  Exploration is
exhaustive unless a budget is hit, in which case the result is *inconclusive* (never success).
"""
from __future__ import annotations

import os
import sys
import time
import traceback
from fractions import Fraction
from typing import Any, Callable, Dict, List, Optional, Tuple

import z3

_CURRENT: Optional["Engine"] = None

# one watchdog thread per process: z3 does not always honour its own timeout, so the context is
# interrupted once a query has overrun its budget
_WATCH = {"deadline": None, "ctx": None, "thread": None}
_WATCH_LOCK = __import__("threading").Lock()


def _watchdog():
    while True:
        time.sleep(0.5)
        with _WATCH_LOCK:               # an interrupt is never issued after _disarm() has returned
            d = _WATCH["deadline"]
            if d is not None and time.time() > d:
                try:
                    _WATCH["ctx"].interrupt()
                except Exception:
                    pass
                _WATCH["deadline"] = time.time() + 5.0


def _retry_canceled(fn, *args):
    """A watchdog interrupt that lands just as a query returns can leave z3's cancel flag set for the next API call
    ('push canceled'); such a call did nothing and is simply repeated."""
    for attempt in range(6):
        try:
            return fn(*args)
        except z3.Z3Exception as e:
            if "cancel" not in str(e) or attempt == 5:
                raise
            time.sleep(0.05)


def _arm(ctx, seconds: float):
    import threading
    if _WATCH["thread"] is None or not _WATCH["thread"].is_alive() or _WATCH.get("pid") != os.getpid():
        t = threading.Thread(target=_watchdog, daemon=True)
        _WATCH["thread"], _WATCH["pid"] = t, os.getpid()
        t.start()
    _WATCH["ctx"] = ctx
    _WATCH["deadline"] = time.time() + seconds


def _disarm():
    with _WATCH_LOCK:
        _WATCH["deadline"] = None


def current() -> "Engine":
    if _CURRENT is None:
        raise RuntimeError("no sx engine is active")
    return _CURRENT


def active() -> bool:
    return _CURRENT is not None


class PathAbort(BaseException):
    """The current path is infeasible / assumed away.  Not an error."""


class SxInconclusive(BaseException):
    """An operation the symbolic domain cannot model was reached, or the solver said unknown."""


class SxUnsupported(SxInconclusive):
    pass


class Violation:
    def __init__(self, label: str, witness: Dict[str, Any], detail: str = ""):
        self.label = label
        self.witness = witness
        self.detail = detail

    def to_json(self):
        return {"label": self.label, "witness": self.witness, "detail": self.detail}


def _pyval(v):
    """z3 model value -> JSON-able python value (exact rationals as strings)."""
    if v is None:
        return None
    if z3.is_true(v):
        return True
    if z3.is_false(v):
        return False
    if z3.is_int_value(v):
        return v.as_long()
    if z3.is_rational_value(v):
        n, d = v.numerator_as_long(), v.denominator_as_long()
        return n if d == 1 else "%d/%d" % (n, d)
    if z3.is_algebraic_value(v):
        return v.approx(20).as_decimal(20).rstrip("?")
    return str(v)


class Stats:
    FIELDS = (
        "paths", "paths_ok", "paths_aborted", "paths_exception", "paths_inconclusive",
        "decisions", "queries", "solver_s", "checks", "checks_unsat", "checks_sat",
        "checks_trivial", "unknown",
    )

    def __init__(self):
        for f in self.FIELDS:
            setattr(self, f, 0)
        self.solver_s = 0.0

    def add(self, other: "Stats"):
        for f in self.FIELDS:
            setattr(self, f, getattr(self, f) + getattr(other, f))

    def to_json(self):
        d = {f: getattr(self, f) for f in self.FIELDS}
        d["solver_s"] = round(d["solver_s"], 3)
        return d


class Engine:
    def __init__(self, query_timeout_ms: int = 30000, max_paths: int = 200000,
                 max_seconds: float = 3600.0, name: str = "", mode: str = "incremental"):
        self.name = name
        # "incremental": one z3 solver with push/pop (fast for linear/boolean path conditions);
        # an `unknown` is retried on a fresh solver (z3 then picks its nlsat-based strategy).
        # "fresh": every query on a fresh solver (for harnesses that are non-linear throughout).
        self.mode = mode
        self.pc: List[Any] = []
        self.small: List[Any] = []
        self.query_timeout_ms = query_timeout_ms
        self.max_paths = max_paths
        self.max_seconds = max_seconds
        self.solver = z3.Solver()
        self.solver.set("timeout", min(query_timeout_ms, 4000))
        # a second solver that only ever sees *small* facts of the path condition; anything it proves
        # follows from the path condition (sound for `implied`), and it stays fast
        self.light = z3.Solver()
        self.light.set("timeout", min(query_timeout_ms, 5000))
        self.stats = Stats()
        self.violations: List[Violation] = []
        self.inconclusive: List[str] = []
        self.notes: List[str] = []
        self.samples: List[Any] = []
        self.max_samples = 6
        self.reach: Dict[str, int] = {}          # label -> number of paths that reached it
        self.check_labels: Dict[str, List[int]] = {}   # label -> [discharged, violated]
        # per path
        self.prefix: List[bool] = []
        self.trace: List[Tuple[bool, bool]] = []      # (value, forced)
        self.inputs: Dict[str, Any] = {}
        self.counters: Dict[str, int] = {}
        self.model: Optional[z3.ModelRef] = None
        self.path_log: List[str] = []
        self.worklist: List[List[bool]] = []
        self.deadline = 0.0
        self.stop_on_violation = False
        self._depth = 0
        self.scratch: Dict[str, Any] = {}
        self.known: Dict[int, Any] = {}
        self.symbolic_pi = True
        self.div_zero_policy = "fork"

    # ------------------------------------------------------------------ fresh symbols
    def _name(self, base: str) -> str:
        n = self.counters.get(base, 0)
        self.counters[base] = n + 1
        return "%s#%d" % (base, n) if n else base

    def fresh_real(self, base: str, register: bool = True) -> z3.ArithRef:
        nm = self._name(base)
        t = z3.Real(nm)
        if register:
            self.inputs[nm] = t
        return t

    def fresh_int(self, base: str, register: bool = True) -> z3.ArithRef:
        nm = self._name(base)
        t = z3.Int(nm)
        if register:
            self.inputs[nm] = t
        return t

    def fresh_bool(self, base: str, register: bool = True) -> z3.BoolRef:
        nm = self._name(base)
        t = z3.Bool(nm)
        if register:
            self.inputs[nm] = t
        return t

    # ---- harness-level constructors (mirrored by sx.concrete.ConcreteEngine for replays)
    symbolic = True

    def real(self, name: str, npy: bool = False):
        from .values import SVal
        from . import cpoly
        t = self.fresh_real(name)
        return SVal(t, npy=npy, cx=cpoly.var(str(t)))

    def boolean(self, name: str, npy: bool = False):
        from .values import SBool
        return SBool(self.fresh_bool(name), npy=npy)

    def integer(self, name: str, lo: Optional[int] = None, hi: Optional[int] = None):
        from .values import SInt
        t = self.fresh_int(name)
        if lo is not None:
            self._add(t >= lo)
        if hi is not None:
            self._add(t <= hi)
        return SInt(t)

    def complex(self, name: str, npy: bool = True):
        from .values import SVal
        from . import cpoly
        re_ = self.fresh_real(name + ".re")
        return SVal(re_, self.fresh_real(name + ".im"), npy=npy, cx=cpoly.var(str(re_)[:-3]))

    def float_any(self, name: str, kinds=("finite", "+inf", "-inf", "nan")):
        """a float of any of the given kinds: finite ones symbolic, specials concrete"""
        k = kinds[self.choice(len(kinds), name + ".kind")]
        if k == "finite":
            return self.real(name)
        return {"+inf": float("inf"), "-inf": float("-inf"), "nan": float("nan")}[k]

    def note_input(self, name: str, value: Any):
        """Record a concrete (already decided) input component for witnesses."""
        self.inputs[name] = value

    # ------------------------------------------------------------------ solver plumbing
    def _fresh_check(self, facts, extra, timeout_ms):
        import threading
        s = z3.Solver()
        s.set("timeout", int(timeout_ms))
        s.add(*facts)
        s.add(*extra)          # asserted, not passed as assumptions: assumptions force the incremental core
        # z3 does not always honour its own timeout on non-linear problems: interrupt it as well
        _arm(s.ctx, timeout_ms / 1000.0 + 2.0)
        if os.environ.get("SX_DUMP"):
            with open(os.environ["SX_DUMP"], "w") as fp:
                fp.write(s.to_smt2().replace("(check-sat)", "") + "".join("(assert %s)\n" % e.sexpr() for e in extra) + "(check-sat)\n")
        try:
            r = s.check()
        except z3.Z3Exception:
            r = z3.unknown
        finally:
            _disarm()
        return r, s

    # ---- counterexample guessing (never used to establish that something holds)
    def _guess_model(self, neg, tries: int = 40):
        """Try a few pseudo-random rational assignments of all free constants; an assignment that
        satisfies the whole path condition and `neg` is a genuine model (it is then replayed like any
        solver model).  Only used after the solver answered `unknown` on an assertion."""
        import random
        terms = list(self.pc) + ([neg] if neg is not None else [])
        consts = {}
        stack = list(terms)
        seen = set()
        while stack:
            x = stack.pop()
            i = x.get_id()
            if i in seen:
                continue
            seen.add(i)
            if z3.is_const(x) and x.decl().kind() == z3.Z3_OP_UNINTERPRETED:
                consts[str(x)] = x
            else:
                stack.extend(x.children())
        rng = random.Random(len(consts) * 7919 + 17)
        base = None
        r, s0 = self._fresh_check(self.small, (), 3000)
        if str(r) == "sat":
            base = s0.model()
        names = sorted(consts)
        input_names = {str(t) for t in self.inputs.values() if isinstance(t, z3.ExprRef)}

        def pick(nm, c, k):
            if z3.is_bool(c):
                return z3.BoolVal(rng.random() < 0.5)
            if z3.is_int(c):
                return z3.IntVal(rng.randint(-3, 6))
            if nm == "pi":
                return z3.Q(355, 113)
            if base is not None and (k % 3 == 2 or (k % 3 == 1 and rng.random() < 0.6)):
                v = base.eval(c, model_completion=True)
                if z3.is_rational_value(v):
                    return v
            return z3.Q(rng.randint(1, 24) * rng.choice((1, 1, 1, -1)), rng.choice((1, 2, 3, 4, 5, 8, 10)))
        t_end = time.time() + 45
        # phase A: assign every free constant
        for k in range(tries):
            if time.time() > t_end:
                break
            subst = [(consts[nm], pick(nm, consts[nm], k)) for nm in names]
            ok = True
            for t in terms:
                v = z3.simplify(z3.substitute(t, *subst))
                if not z3.is_true(v):
                    ok = False
                    break
            if ok:
                s = z3.Solver()
                for c, v in subst:
                    s.add(c == v)
                if str(s.check()) == "sat":
                    return s.model()
        # phase B: assign the registered inputs only and let the solver complete the derived atoms (moduli, roots, logs ...):
        # with the inputs pinned the remaining constraints are small
        free = [nm for nm in names if nm not in input_names and nm != "pi"]
        if free:
            pinned = [nm for nm in names if nm in input_names or nm == "pi"]
            for k in range(tries):
                if time.time() > t_end:
                    break
                subst = [(consts[nm], pick(nm, consts[nm], k)) for nm in pinned]
                rest = []
                ok = True
                for t in terms:
                    v = z3.simplify(z3.substitute(t, *subst))
                    if z3.is_false(v):
                        ok = False
                        break
                    if not z3.is_true(v):
                        rest.append(v)
                if not ok:
                    continue
                r, s = self._fresh_check(rest + [c == v for c, v in subst if str(c) != "pi"], (), 3000)
                if str(r) == "sat":
                    return s.model()
        return None

    def _check(self, *extra) -> str:
        t0 = time.time()
        self.stats.queries += 1
        holder = self.solver
        if self.mode == "fresh":
            r, holder = self._fresh_check(self.pc, extra, self.query_timeout_ms)
        else:
            _arm(self.solver.ctx, min(self.query_timeout_ms, 4000) / 1000.0 + 1.5)
            try:
                r = self.solver.check(*extra)
            except z3.Z3Exception:
                r = z3.unknown
            finally:
                _disarm()
            if str(r) == "unknown":
                r, holder = self._fresh_check(self.pc, extra, self.query_timeout_ms)
        dt = time.time() - t0
        self.stats.solver_s += dt
        if dt > 5.0 and os.environ.get("SX_DEBUG"):
            sys.stderr.write("[sx] slow query %.1fs -> %s: %s\n" % (dt, r, _short(extra, 300)))
        s = str(r)
        if s == "sat":
            try:
                self.model = holder.model()
            except z3.Z3Exception:
                self.model = None
        elif s == "unknown":
            self.stats.unknown += 1
        return s

    def _model_says(self, term) -> Optional[bool]:
        if self.model is None or self.mode == "fresh":
            # (non-linear models may contain algebraic numbers whose evaluation is very slow)
            return None
        try:
            v = self.model.eval(term, model_completion=True)
        except z3.Z3Exception:
            return None
        if z3.is_true(v):
            return True
        if z3.is_false(v):
            return False
        return None

    def _add(self, term):
        if self.mode != "fresh":
            _retry_canceled(self.solver.add, term)
        self.pc.append(term)
        self._remember(term, True)
        if _ast_size(term, 120) < 120:
            self.small.append(term)

    def _remember(self, term, val: bool):
        """syntactic cache of asserted literals (cheap answers for repeated branch conditions)"""
        try:
            while z3.is_not(term):
                term, val = term.arg(0), not val
            self.known[term.get_id()] = (term, val)
            if val and z3.is_and(term):
                for c in term.children():
                    self._remember(c, True)
            if (not val) and z3.is_or(term):
                for c in term.children():
                    self._remember(c, False)
        except Exception:
            pass

    def _known(self, term):
        val = True
        while z3.is_not(term):
            term, val = term.arg(0), not val
        hit = self.known.get(term.get_id())
        if hit is None:
            return None
        return hit[1] if val else (not hit[1])

    # ------------------------------------------------------------------ decisions
    def decide(self, term) -> bool:
        """Branch on a z3 Bool term.  Returns the concrete truth value for this path."""
        if isinstance(term, bool):
            return term
        term = z3.simplify(term)
        if z3.is_true(term):
            return True
        if z3.is_false(term):
            return False
        kn = self._known(term)
        if kn is not None:
            return kn
        i = len(self.trace)
        if i < len(self.prefix):
            val = self.prefix[i]
            forced = False
            if isinstance(val, tuple):
                val, forced = val
            self.trace.append((val, forced))
            self._add(term if val else z3.Not(term))
            if self.model is not None and self._model_says(term) != val:
                self.model = None
            return val
        self.stats.decisions += 1
        if time.time() > self.deadline:
            raise SxInconclusive("time budget exhausted")
        guess = self._model_says(term)
        saved = self.model
        model_t = model_f = None
        if guess is True:
            can_t, model_t = "sat", saved
            can_f = self._check(z3.Not(term))
            if can_f == "sat":
                model_f = self.model
        elif guess is False:
            can_f, model_f = "sat", saved
            can_t = self._check(term)
            if can_t == "sat":
                model_t = self.model
        else:
            can_t = self._check(term)
            if can_t == "sat":
                model_t = self.model
            can_f = self._check(z3.Not(term))
            if can_f == "sat":
                model_f = self.model
        if can_t == "unknown" or can_f == "unknown":
            raise SxInconclusive("solver returned unknown on a branch condition: %s" % _short(term))
        if can_t == "sat" and can_f == "sat":
            val, forced = True, False
            self.worklist.append([*self.trace, (False, False)])
        elif can_t == "sat":
            val, forced = True, True
        elif can_f == "sat":
            val, forced = False, True
        else:
            raise PathAbort("path condition became unsatisfiable")
        self.model = model_t if val else model_f
        self.trace.append((val, forced))
        self._add(term if val else z3.Not(term))
        return val

    def choice(self, n: int, label: str = "choice") -> int:
        """Non-deterministic choice in range(n): every value is explored."""
        if n <= 1:
            return 0
        v = self.fresh_int(label)
        self._add(z3.And(v >= 0, v < n))
        for k in range(n - 1):
            if self.decide(v == k):
                return k
        return n - 1

    def assume(self, cond):
        term = _as_term(cond)
        if term is True:
            return
        if term is False:
            raise PathAbort("assume(False)")
        term = z3.simplify(term)
        if z3.is_true(term):
            return
        if z3.is_false(term):
            raise PathAbort("assume(False)")
        self._add(term)
        if self._model_says(term) is True:
            return
        r = self._check()
        if r == "unsat":
            raise PathAbort("assumption infeasible")
        if r == "unknown":
            raise SxInconclusive("solver returned unknown on an assumption")

    def axiom(self, term):
        """Add a fact that is true by construction (no feasibility check)."""
        if term is True:
            return
        self._add(term)
        if self.model is not None and self._model_says(term) is not True:
            self.model = None

    def implied(self, cond, light: bool = True) -> bool:
        """Does the path condition imply cond?  (unknown counts as no.)  With light=True only the
        small facts of the path condition are used: a sound under-approximation that stays fast."""
        term = _as_term(cond)
        if isinstance(term, bool):
            return term
        term = z3.simplify(term)
        if z3.is_true(term):
            return True
        if z3.is_false(term):
            return False
        kn = self._known(term)
        if kn is not None:
            return kn
        if self._model_says(term) is False:
            return False
        if light:
            t0 = time.time()
            self.stats.queries += 1
            r, _ = self._fresh_check(self.small, (z3.Not(term),), min(self.query_timeout_ms, 5000))
            self.stats.solver_s += time.time() - t0
            return str(r) == "unsat"
        saved = self.model
        r = self._check(z3.Not(term))
        if r != "sat":
            self.model = saved
        return r == "unsat"

    def possible(self, cond) -> bool:
        term = _as_term(cond)
        if isinstance(term, bool):
            return term
        if self._model_says(term) is True:
            return True
        saved = self.model
        r = self._check(term)
        if r == "unknown":
            raise SxInconclusive("unknown in possible()")
        if r != "sat":
            self.model = saved
        return r == "sat"

    # ------------------------------------------------------------------ assertions
    def reached(self, label: str):
        self.reach[label] = self.reach.get(label, 0) + 1

    def check(self, cond, label: str, detail: Any = None) -> bool:
        """Assert cond on this path.  A sat answer for (pc and not cond) is a violation candidate
        with a model; the check is then assumed so that the path can continue."""
        self.stats.checks += 1
        self.reached(label)
        rec = self.check_labels.setdefault(label, [0, 0])
        term = _as_term(cond)
        if term is True:
            self.stats.checks_trivial += 1
            rec[0] += 1
            return True
        if term is not False:
            term = z3.simplify(term)
            if z3.is_true(term):
                self.stats.checks_trivial += 1
                rec[0] += 1
                return True
        if term is False or z3.is_false(term):
            r = self._check()
            neg = None
        else:
            neg = z3.Not(term)
            r = self._check(neg)
        if r == "unsat":
            self.stats.checks_unsat += 1
            rec[0] += 1
            return True
        if r == "unknown":
            self.model = self._guess_model(neg)
            if self.model is None:
                raise SxInconclusive("solver returned unknown on assertion '%s'" % label)
            r = "sat"
        self.stats.checks_sat += 1
        rec[1] += 1
        self._floatify_model(neg)
        wit = self.witness()
        d = detail() if callable(detail) else detail
        self.violations.append(Violation(label, wit, "" if d is None else str(d)))
        self.model = None
        if self.stop_on_violation:
            raise PathAbort("violation recorded")
        if term is False or z3.is_false(term):
            raise PathAbort("violated unconditional assertion")
        self._add(term)
        if self._check() != "sat":
            raise PathAbort("assertion cannot hold on this path")
        return False

    def _floatify_model(self, neg):
        """Prefer a model whose real inputs are exactly the decimal value of a double (so that the
        concrete replay, which runs on floats, sees the same order relations)."""
        import math
        extra = [] if neg is None else [neg]
        if self.model is None:
            return
        best = self.model
        t0 = time.time()
        for name, term in self.inputs.items():
            if not isinstance(term, z3.ExprRef) or not z3.is_real(term):
                continue
            if time.time() - t0 > 20:
                break
            v = best.eval(term, model_completion=True)
            try:
                if z3.is_rational_value(v):
                    fv = float(Fraction(v.numerator_as_long(), v.denominator_as_long()))
                else:
                    fv = float(v.approx(17).as_decimal(17).rstrip("?"))
            except Exception:
                continue
            cands = []
            for c in (fv, math.nextafter(fv, math.inf), math.nextafter(fv, -math.inf), fv + 1.0, fv - 1.0, fv * 2, fv / 2):
                if math.isfinite(c) and c not in cands:
                    cands.append(c)
            for c in cands:
                fr = Fraction(repr(c))
                cv = z3.RealVal(fr.numerator) / z3.RealVal(fr.denominator) if fr.denominator != 1 else z3.RealVal(fr.numerator)
                if z3.is_rational_value(v) and Fraction(v.numerator_as_long(), v.denominator_as_long()) == fr:
                    extra.append(term == cv)
                    break
                r = self._check(*extra, term == cv)
                if r == "sat":
                    extra.append(term == cv)
                    best = self.model
                    break
        self.model = best

    def fail(self, label: str, detail: Any = None):
        self.check(False, label, detail)

    def witness(self) -> Dict[str, Any]:
        """Concrete values of all registered inputs under the current model."""
        out: Dict[str, Any] = {}
        m = self.model
        for k, v in self.inputs.items():
            if isinstance(v, z3.ExprRef):
                out[k] = _pyval(m.eval(v, model_completion=True)) if m is not None else None
            else:
                out[k] = v
        return out

    def concretize(self, term) -> Any:
        """Fork until `term` has a single value on this path; returns the z3 value."""
        while True:
            r = self._check() if self.model is None else "sat"
            if r != "sat" or self.model is None:
                if r == "unsat":
                    raise PathAbort("path condition unsatisfiable while concretizing")
                raise SxInconclusive("cannot concretize")
            v = self.model.eval(term, model_completion=True)
            if self.decide(term == v):
                return v

    # ------------------------------------------------------------------ exploration
    def _run_path(self, harness: Callable[["Engine"], Any], prefix: List[Any]):
        global _CURRENT
        self.prefix = prefix
        self.trace = []
        self.inputs = {}
        self.counters = {}
        self.model = None
        self.path_log = []
        self.scratch = {}
        self.known = {}
        self.div_zero_policy = "fork"
        _retry_canceled(self.solver.push)
        self.pc = []
        self.small = []
        prev = _CURRENT
        _CURRENT = self
        outcome = "ok"
        try:
            harness(self)
        except PathAbort:
            outcome = "aborted"
        except SxInconclusive as e:
            outcome = "inconclusive"
            msg = "%s: %s" % (type(e).__name__, e)
            if len(self.inconclusive) < 20:
                tb = traceback.extract_tb(e.__traceback__)
                where = " <- ".join("%s:%d" % (os.path.basename(f.filename), f.lineno) for f in tb[-4:])
                self.inconclusive.append(msg + " @ " + where)
        except RecursionError as e:
            outcome = "inconclusive"
            self.inconclusive.append("RecursionError in harness")
        except Exception as e:  # harness bug or unexpected escape: report loudly
            outcome = "exception"
            tb = traceback.format_exc()
            self.violations.append(Violation("harness-exception", self._safe_witness(),
                                             "%s: %s\n%s" % (type(e).__name__, e, tb[-1500:])))
        finally:
            _CURRENT = prev
            _retry_canceled(self.solver.pop)
        self.stats.paths += 1
        setattr(self.stats, "paths_" + outcome, getattr(self.stats, "paths_" + outcome) + 1)
        if len(self.samples) < self.max_samples and outcome == "ok":
            self.samples.append({"decisions": "".join("T" if v else "F" for v, _ in self.trace)[:80],
                                 "log": self.path_log[:12]})
        return outcome

    def _safe_witness(self):
        try:
            if self.model is None:
                self._check()
            return self.witness()
        except Exception:
            return {}

    def log(self, msg: str):
        if len(self.path_log) < 40:
            self.path_log.append(msg)

    def explore(self, harness: Callable[["Engine"], Any], prefixes: Optional[List[List[Any]]] = None,
                frontier: int = 0) -> Optional[List[List[Any]]]:
        """Depth-first exploration.  If `frontier` > 0, stop as soon as the worklist holds that
        many open prefixes and return them (for distribution over processes)."""
        self.deadline = time.time() + self.max_seconds
        self.worklist = list(prefixes) if prefixes is not None else [[]]
        while self.worklist:
            if frontier and len(self.worklist) >= frontier:
                out = self.worklist
                self.worklist = []
                return out
            if self.stats.paths >= self.max_paths:
                self.inconclusive.append("path budget (%d) exhausted with %d open prefixes"
                                         % (self.max_paths, len(self.worklist)))
                self.worklist = []
                break
            if time.time() > self.deadline:
                self.inconclusive.append("time budget (%.0fs) exhausted with %d open prefixes"
                                         % (self.max_seconds, len(self.worklist)))
                self.worklist = []
                break
            prefix = self.worklist.pop()
            self._run_path(harness, prefix)
        return [] if frontier else None


def _ast_size(t, cap: int) -> int:
    n = 0
    stack = [t]
    seen = set()
    while stack:
        x = stack.pop()
        i = x.get_id()
        if i in seen:
            continue
        seen.add(i)
        n += 1
        if n >= cap:
            return n
        stack.extend(x.children())
    return n


def _short(t, n=160):
    s = str(t).replace("\n", " ")
    return s if len(s) <= n else s[:n] + "..."


def _as_term(cond):
    from .values import SBool
    if isinstance(cond, SBool):
        return cond.term
    if isinstance(cond, (bool,)):
        return bool(cond)
    if isinstance(cond, z3.BoolRef):
        return cond
    try:
        import numpy as _np
        if isinstance(cond, _np.bool_):
            return bool(cond)
    except Exception:
        pass
    raise TypeError("not a boolean condition: %r" % (cond,))
