"""sx.shims -- what the loader puts into each pyimpspec module namespace:
operator hooks (__sx_in__, __sx_is__, __sx_mod__), symbolic-aware builtins, and the identity-keyed
rebinding of numpy / math callables to sx.symnp.
"""
from __future__ import annotations

import builtins
import cmath
import math
from fractions import Fraction
from typing import Any, Dict

import numpy as np
import z3

from . import engine as _eng
from . import symnp
from .engine import SxUnsupported
from .values import SBool, SInt, SVal, is_symbolic, s_not, s_or, pi_val, s_abs, s_sqrt, s_fun
from .symnp import SArr


# --------------------------------------------------------------------------- operator hooks
def sx_in(a, b):
    """a in b"""
    hook = getattr(b, "__sx_contains__", None)
    if hook is not None:
        return hook(a)
    hook = getattr(a, "__sx_in__", None)
    if hook is not None:
        return hook(b)
    if is_symbolic(a) and isinstance(b, (list, tuple)):
        # identity first (Python semantics), then ==
        for x in b:
            if x is a:
                return True
        for x in b:
            r = (a == x)
            if r is NotImplemented:
                continue
            if r:
                return True
        return False
    return a in b


def sx_is(a, b):
    hook = getattr(a, "__sx_is__", None)
    if hook is not None:
        return hook(b)
    hook = getattr(b, "__sx_is__", None)
    if hook is not None:
        return hook(a)
    a = _UNSHADOW.get(id(a), a)
    b = _UNSHADOW.get(id(b), b)
    return a is b


def sx_mod(a, b):
    if isinstance(a, str) and not hasattr(a, "_sx_symbolic"):
        if _has_symbolic(b):
            hook = _eng.current().scratch.get("format_hook") if _eng.active() else None
            if hook is not None:
                return hook(a, b)
            raise SxUnsupported("'%s' %% <symbolic value>: printed numbers are not modelled here" % a)
        return a % b
    return a % b


def _has_symbolic(b) -> bool:
    if is_symbolic(b):
        return True
    if isinstance(b, tuple):
        return any(is_symbolic(x) for x in b)
    return False


# --------------------------------------------------------------------------- builtins
class _Meta(type):
    def __instancecheck__(cls, obj):
        return sx_isinstance(obj, cls._real)

    def __subclasscheck__(cls, sub):
        return issubclass(_UNSHADOW.get(id(sub), sub), cls._real)

    def __repr__(cls):
        return repr(cls._real)

    def __eq__(cls, other):
        return other is cls or other is cls._real

    def __hash__(cls):
        return hash(cls._real)


class sx_float(float, metaclass=_Meta):
    _real = float

    def __new__(cls, x=0.0):
        if is_symbolic(x):
            hook = getattr(x, "__sx_float__", None)
            if hook is not None:
                return hook()
            if isinstance(x, SVal):
                if not x.is_real():
                    raise TypeError("float() argument must be a string or a real number, not 'complex'")
                return x.with_npy(False) if x.npy else x
            if isinstance(x, SInt):
                return SVal(z3.ToReal(x.term))
            if isinstance(x, SBool):
                return SVal.lift(x)
            if isinstance(x, SArr):
                if x.size != 1:
                    raise TypeError("only 0-dimensional arrays can be converted to Python scalars")
                return sx_float(x.flat[0])
            raise SxUnsupported("float() of %s" % type(x).__name__)
        return float(x)


class sx_int(int, metaclass=_Meta):
    _real = int

    def __new__(cls, x=0, *args):
        if is_symbolic(x):
            hook = getattr(x, "__sx_int__", None)
            if hook is not None:
                return hook(*args)
            if isinstance(x, SInt):
                return x
            if isinstance(x, SBool):
                return SInt(z3.If(x.term, 1, 0))
            if isinstance(x, SVal):
                if x.is_const():
                    return int(x.nr)
                # truncation toward zero
                t = x.real_term()
                return SInt(z3.If(t >= 0, z3.ToInt(t), -z3.ToInt(-t)))
            raise SxUnsupported("int() of %s" % type(x).__name__)
        return int(x, *args)


class sx_complex(complex, metaclass=_Meta):
    _real = complex

    def __new__(cls, *args):
        if any(is_symbolic(a) for a in args):
            if len(args) == 1:
                return SVal.lift(args[0])
            re, im = SVal.lift(args[0]), SVal.lift(args[1])
            return re + im * SVal(Fraction(0), Fraction(1))
        return complex(*args)


class sx_bool(int, metaclass=_Meta):
    _real = bool

    def __new__(cls, x=False):
        if isinstance(x, SBool):
            return x
        if is_symbolic(x):
            if isinstance(x, SVal):
                return s_not(x.is_zero())
            if isinstance(x, SInt):
                return x != 0
            return bool(x)
        return bool(x)


def _dispatch(name):
    def f(x, *a, **k):
        return getattr(x, name)(*a, **k)
    f.__name__ = name
    return staticmethod(f)


class sx_str(str, metaclass=_Meta):
    _real = str
    # `str.isascii(x)`-style calls on the type (e.g. map(str.isascii, label)) must dispatch on symbolic strings
    isascii = _dispatch("isascii")
    isdigit = _dispatch("isdigit")
    isalpha = _dispatch("isalpha")
    isspace = _dispatch("isspace")
    isidentifier = _dispatch("isidentifier")
    upper = _dispatch("upper")
    lower = _dispatch("lower")
    strip = _dispatch("strip")
    startswith = _dispatch("startswith")
    endswith = _dispatch("endswith")
    find = _dispatch("find")
    rfind = _dispatch("rfind")
    split = _dispatch("split")

    def __new__(cls, *args, **kw):
        if args and is_symbolic(args[0]):
            hook = getattr(args[0], "__sx_str__", None)
            if hook is not None:
                return hook()
            return str.__new__(str, repr(args[0]))
        return str(*args, **kw)


_SHADOW_TYPES = {float: sx_float, int: sx_int, complex: sx_complex, bool: sx_bool, str: sx_str}
_UNSHADOW: Dict[int, Any] = {id(v): k for k, v in _SHADOW_TYPES.items()}

_FLOAT_TYPES = (float, np.floating)
_COMPLEX_TYPES = (complex, np.complexfloating)


def _sym_isinstance(obj, cls) -> bool:
    """isinstance for symbolic stand-ins"""
    cls = _UNSHADOW.get(id(cls), cls)
    hook = getattr(obj, "__sx_isinstance__", None)
    if hook is not None:
        return hook(cls)
    if isinstance(obj, SVal):
        if obj.is_real():
            if obj.npy:
                return cls in (np.float64, np.floating, np.number, np.generic, float, object, np.inexact)
            return cls in (float, object)
        if obj.npy:
            return cls in (np.complex128, np.complexfloating, np.number, np.generic, complex, object, np.inexact)
        return cls in (complex, object)
    if isinstance(obj, SBool):
        return cls in (bool, int, np.bool_, object)
    if isinstance(obj, SInt):
        return cls in (int, object, np.integer, np.int64)
    if isinstance(obj, SArr):
        return cls in (np.ndarray, object)
    return builtins.isinstance(obj, cls)


def sx_isinstance(obj, cls):
    if is_symbolic(obj):
        if isinstance(cls, tuple):
            return any(sx_isinstance(obj, c) for c in cls)
        return _sym_isinstance(obj, cls)
    if isinstance(cls, tuple):
        cls = tuple(_UNSHADOW.get(id(c), c) for c in cls)
    else:
        cls = _UNSHADOW.get(id(cls), cls)
    return builtins.isinstance(obj, cls)


def sx_issubclass(a, b):
    a = _UNSHADOW.get(id(a), a)
    if isinstance(b, tuple):
        b = tuple(_UNSHADOW.get(id(c), c) for c in b)
    else:
        b = _UNSHADOW.get(id(b), b)
    return builtins.issubclass(a, b)


def sx_type(*args):
    if len(args) == 1:
        obj = args[0]
        if is_symbolic(obj):
            hook = getattr(obj, "__sx_type__", None)
            if hook is not None:
                return hook()
            if isinstance(obj, SVal):
                if obj.npy:
                    return np.float64 if obj.is_real() else np.complex128
                return float if obj.is_real() else complex
            if isinstance(obj, SBool):
                return bool
            if isinstance(obj, SInt):
                return int
            if isinstance(obj, SArr):
                return np.ndarray
        return builtins.type(obj)
    return builtins.type(*args)


class _TypeShadow:
    """`type` is used both as a function and in annotations / isinstance(x, type)."""

    def __call__(self, *args, **kw):
        return sx_type(*args, **kw)

    def __instancecheck__(self, obj):
        return builtins.isinstance(obj, builtins.type)

    def __getitem__(self, item):
        return builtins.type[item]


def sx_len(x):
    hook = getattr(x, "__sx_len__", None)
    if hook is not None:
        return hook()
    return builtins.len(x)


def sx_abs(x):
    if isinstance(x, SVal):
        return s_abs(x)
    return builtins.abs(x)


def sx_round(x, *args):
    if is_symbolic(x):
        raise SxUnsupported("round() of a symbolic value")
    return builtins.round(x, *args)


def sx_min(*args, **kw):
    return builtins.min(*args, **kw)


BUILTINS = {
    "float": sx_float,
    "int": sx_int,
    "complex": sx_complex,
    "bool": sx_bool,
    "str": sx_str,
    "isinstance": sx_isinstance,
    "issubclass": sx_issubclass,
    "type": sx_type,
    "len": sx_len,
    "round": sx_round,
    "__sx_in__": sx_in,
    "__sx_is__": sx_is,
    "__sx_mod__": sx_mod,
}


def install_builtins(ns: Dict[str, Any]):
    ns.update(BUILTINS)


# --------------------------------------------------------------------------- constants
class PiConst:
    """numpy.pi / math.pi: the float 3.14159... outside symbolic runs, the shared symbolic
    constant pi (3.14159 < pi < 3.1416) inside them.  Deliberately not a float subclass: complex
    and float would otherwise multiply it natively and never call the reflected methods."""
    _v0 = math.pi

    def __float__(self):
        return self._v0

    def __repr__(self):
        return repr(self._v0)

    def __hash__(self):
        return hash(self._v0)

    def __eq__(self, o):
        return self._v0 == o

    def __lt__(self, o):
        return self._v0 < o

    def __le__(self, o):
        return self._v0 <= o

    def __gt__(self, o):
        return self._v0 > o

    def __ge__(self, o):
        return self._v0 >= o

    def __abs__(self):
        return self._v() if self._sym() else self._v0

    def __pos__(self):
        return self._v() if self._sym() else self._v0

    def __array__(self, dtype=None, copy=None):
        return np.array(self._v0, dtype=dtype)

    def _sym(self):
        return _eng.active() and _eng.current().symbolic_pi

    def _v(self):
        return pi_val()

    def __mul__(self, o):
        return self._v() * o if self._sym() else float(self) * o

    def __rmul__(self, o):
        return o * self._v() if self._sym() else o * float(self)

    def __truediv__(self, o):
        return self._v() / o if self._sym() else float(self) / o

    def __rtruediv__(self, o):
        return o / self._v() if self._sym() else o / float(self)

    def __add__(self, o):
        return self._v() + o if self._sym() else float(self) + o

    def __radd__(self, o):
        return o + self._v() if self._sym() else o + float(self)

    def __sub__(self, o):
        return self._v() - o if self._sym() else float(self) - o

    def __rsub__(self, o):
        return o - self._v() if self._sym() else o - float(self)

    def __neg__(self):
        return -self._v() if self._sym() else -float(self)

    def __pow__(self, o):
        return self._v() ** o if self._sym() else float(self) ** o

    def __rpow__(self, o):
        return o ** self._v() if self._sym() else o ** float(self)


PI = PiConst()


# --------------------------------------------------------------------------- math module stand-ins
def _math1(f, symf):
    def g(x, *a):
        if is_symbolic(x):
            return symf(x)
        return f(x, *a)
    g.__name__ = f.__name__
    return g


REBIND = dict(symnp.TABLE)


def _reg(obj, shim):
    REBIND[id(obj)] = (obj, shim)


_reg(math.isinf, _math1(math.isinf, lambda v: False))
_reg(math.isnan, _math1(math.isnan, lambda v: False))
_reg(math.isfinite, _math1(math.isfinite, lambda v: True))
_reg(math.sqrt, _math1(math.sqrt, s_sqrt))
_reg(math.fabs, _math1(math.fabs, s_abs))
_reg(math.exp, _math1(math.exp, lambda v: s_fun("exp", v, nonzero=True, positive=True)))
_reg(math.log, _math1(math.log, lambda v: s_fun("log", v)))
_reg(math.log10, _math1(math.log10, lambda v: s_fun("log10", v)))
_reg(np.pi, PI)
if math.pi is not np.pi:
    _reg(math.pi, PI)

EXTRA_REBIND = {}   # id -> (obj, shim), filled by checks that stub library calls


def rebind_globals(ns: Dict[str, Any]):
    for k, v in list(ns.items()):
        ent = REBIND.get(id(v)) or EXTRA_REBIND.get(id(v))
        if ent is not None and ent[0] is v:
            ns[k] = ent[1]
