"""C12 -- circuit fitting respects constraints (everything except the recovery of generating values,
which is optimiser behaviour and outside any encoding).

The real fit_circuit / _fit_process / _to_lmfit / _from_lmfit / _residual / _extract_parameters run on
circuits whose start values, limits (finite or infinite) and fixed flags are symbolic, with
lmfit.minimize replaced by its contract (varied parameters end anywhere inside [min, max], fixed ones
keep their value, `expr` parameters follow their expression).  z3 decides whether a returned value can
leave its limits, a fixed parameter can change, a constraint expression can fail, the parameter table
can disagree with the returned circuit, or the circuit passed in can be modified; the selection among
several methods must return the successful fit with the smallest pseudo chi-squared.
"""
from __future__ import annotations

from .common import call, same, is_symbolic, PathAbort, replay_tiers
from . import c08, c17
from .c16 import FakeParameters

PROP = "C12"


def make_start_outside_harness():
    """a start value outside its limits is refused before the optimiser runs (descriptive ValueError inside the
    worker, reported as a FittingError by fit_circuit)"""
    def harness(eng):
        import lmfit
        import pyimpspec.analysis.fitting as fit
        from pyimpspec import parse_cdc
        from pyimpspec.exceptions import FittingError
        from .c18 import _data
        circuit = parse_cdc("R{R=10/1/100}C")
        r = circuit.get_elements()[0]
        v = eng.real("value")
        r.set_values(R=v)
        called = []

        def minimize(*a, **k):
            called.append(1)
            raise AssertionError("the optimiser must not run")
        saved = (lmfit.minimize, lmfit.Parameters)
        lmfit.minimize, lmfit.Parameters = minimize, FakeParameters
        try:
            idents = fit.generate_fit_identifiers(circuit)
            ok, res = call(fit._to_lmfit, idents, {}, {})
        finally:
            lmfit.minimize, lmfit.Parameters = saved
        inside = bool((v >= 1) & (v <= 100)) if eng.symbolic else (1 <= v <= 100)
        eng.check(ok == inside, "a start value outside its limits is refused before fitting", lambda: "value %r -> %r" % (v, res))
        if not ok:
            eng.check(isinstance(res, ValueError), "the refusal is a ValueError")
        eng.reached("start")
    return harness


def obligations(tier: str):
    from sx.runner import Obligation
    import pyimpspec.analysis.fitting as fit
    funcs = [fit.fit_circuit, fit._fit_process, fit._to_lmfit, fit._from_lmfit, fit._residual, fit._convert_intermediate_result,
             fit._extract_parameters, fit.generate_fit_identifiers]
    stubs = ["lmfit.minimize replaced by its contract: varied parameters end anywhere inside [min, max], fixed ones keep their value, expr parameters "
             "follow their expression; lmfit.Parameters is a name->parameter mapping; _fit_process is a stub in the selection obligation"]
    obs = []
    combos = (("R(RC)", False), ("R(RC)", True), ("RQ", False), ("W", False)) if tier == "quick" else (("R(RC)", False), ("R(RC)", True), ("RQ", False), ("W", False), ("R(RQ)", True), ("RL", True))
    for cdc, we in combos:
        obs.append(Obligation("fit.%s.%s" % (cdc, "expr" if we else "plain"), c08.make_fit_harness(cdc, we),
                              bounds="fit_circuit(%s), leastsq/boukamp%s; start values, limits (finite; first parameter also infinite), fixed flags symbolic; 3 unmasked + 1 masked points"
                                     % (cdc, ", one constraint expression" if we else ""), functions=funcs, stubs=stubs, expect_reach=["fit"], mode="fresh",
                              max_paths=1000000))
    for cdc, ms in ((("R", ("leastsq", "nelder")),) if tier == "quick" else (("R", ("leastsq", "nelder", "powell")), ("RC", ("leastsq", "nelder")))):
        obs.append(Obligation("fit.%s.multi" % cdc, c08.make_fit_harness(cdc, False, ms),
                              bounds="fit_circuit(%s), methods %s one after the other in the calling process, weight boukamp; start values, limits, fixed flags symbolic; "
                                     "3 unmasked + 1 masked concrete points" % (cdc, "/".join(ms)), functions=funcs,
                              stubs=stubs + ["a fresh set of fitted values per minimize call", "log10 is strictly increasing (sort key)"], expect_reach=["fit"], mode="fresh",
                              max_paths=1000000))
    obs.append(Obligation("fit.RR.multi.expr", c08.make_fit_harness("RR", True, ("leastsq", "nelder")),
                          bounds="fit_circuit(RR) with one constraint expression, methods leastsq/nelder one after the other in the calling process; start values, limits, fixed flags "
                                 "symbolic; concrete data", functions=funcs, stubs=stubs + ["a fresh set of fitted values per minimize call", "log10 is strictly increasing (sort key)"],
                          expect_reach=["fit", "fit:constraint expressions hold for the returned values"], mode="fresh", max_paths=1000000))
    obs.append(Obligation("selection", c17.make_fit_harness(3), bounds="3 methods, each succeeding or failing, symbolic pairwise distinct pseudo chi-squared values, serial and parallel",
                          functions=[fit.fit_circuit], stubs=stubs, expect_reach=["fit"]))
    obs.append(Obligation("start_outside", make_start_outside_harness(), bounds="R with limits [1, 100] and a symbolic start value", functions=[fit._to_lmfit],
                          stubs=stubs, expect_reach=["start"]))
    for o in obs:
        o.replay = o.harness
    return obs


EXPLANATION = (
    "Bounded symbolic execution with z3 of the real fitting glue code around a contract stub of lmfit.minimize: start values, limits, fixed flags and the "
    "optimiser's returned values are solver variables; z3 decides whether bounds, fixed flags, constraint expressions, the parameter table or the "
    "input circuit can be violated, and whether the multi-method selection can pick anything but the best successful fit."
)
ASSUMPTIONS = ["lmfit.minimize honours min/max/vary/expr (its documented contract)", "floats as reals"]
OUTSIDE = ["recovery of the generating parameters and vanishing pseudo chi-squared on noise-free data (optimiser behaviour)", "methods other than leastsq in the constraint obligations",
           "circuits beyond the listed families"]


def replay(obligation: str, witness):
    from sx.concrete import run_concrete
    for tier in replay_tiers():
        for ob in obligations(tier):
            if ob.name == obligation:
                reproduced, msg, _ = run_concrete(ob.harness, witness)
                return reproduced, msg
    raise KeyError(obligation)
