"""C14 -- the element parameter API is a consistent state machine.

Inductive step: from an arbitrary state satisfying the representation invariant (established
through the public setters, so every explored pre-state is reachable), one call of a parameter
method with symbolic arguments must end in the state the dictionary reference model predicts.
"""
from __future__ import annotations

import copy as _copy
import math
from typing import Any, Dict, List

from .common import call, isnan, lt, same, is_symbolic, replay_tiers

INF = float("inf")
PROP = "C14"

CLASSES_QUICK = ["R", "C", "Q"]
CLASSES_THOROUGH = ["R", "C", "Q", "Tlm", "L", "W"]


def _lib():
    import pyimpspec
    from pyimpspec.circuit.registry import get_elements
    return pyimpspec, get_elements(private=True)


# --------------------------------------------------------------------------- reference model
class Model:
    def __init__(self, keys: List[str]):
        self.keys = list(keys)
        self.value: Dict[str, Any] = {}
        self.lower: Dict[str, Any] = {}
        self.upper: Dict[str, Any] = {}
        self.fixed: Dict[str, Any] = {}
        self.label = ""

    def clone(self) -> "Model":
        m = Model(self.keys)
        m.value, m.lower, m.upper, m.fixed, m.label = dict(self.value), dict(self.lower), dict(self.upper), dict(self.fixed), self.label
        return m


class Refused(Exception):
    pass


def _to_float(x):
    if isinstance(x, str) or x is None:
        raise Refused("not a number")
    return x


def model_apply(m: Model, op: str, pairs: List[tuple]):
    """apply pairs in order; raise Refused at the first invalid one (earlier pairs stay applied)"""
    for key, val in pairs:
        if key not in m.keys:
            raise Refused("unknown key")
        if op == "set_values":
            m.value[key] = _to_float(val)
        elif op == "set_lower_limits":
            x = _to_float(val)
            if isnan(x) or not lt(x, m.upper[key]):
                raise Refused("lower limit must be below the upper limit")
            if lt(m.value[key], x):
                m.value[key] = x
            m.lower[key] = x
        elif op == "set_upper_limits":
            x = _to_float(val)
            if isnan(x) or not lt(m.lower[key], x):
                raise Refused("upper limit must be above the lower limit")
            if lt(x, m.value[key]):
                m.value[key] = x
            m.upper[key] = x
        elif op == "set_fixed":
            if not (is_symbolic(val) or isinstance(val, bool)):
                raise Refused("not a boolean")
            m.fixed[key] = val
        else:
            raise AssertionError(op)


def model_label(m: Model, label):
    if not isinstance(label, str):
        raise Refused("not a string")
    s = label.strip()
    if s != "":
        if not s.isascii():
            raise Refused("non-ascii")
        if s.isdigit():
            raise Refused("digits only")
    m.label = s


# --------------------------------------------------------------------------- state helpers
def build_prestate(eng, Class, value_kinds=("finite",), within_limits=False):
    e = Class()
    keys = list(Class.get_default_values().keys())
    m = Model(keys)
    for k in keys:
        lo = eng.float_any("pre.%s.lower" % k, kinds=("finite", "-inf"))
        up = eng.float_any("pre.%s.upper" % k, kinds=("finite", "+inf"))
        v = eng.float_any("pre.%s.value" % k, kinds=value_kinds)
        fx = eng.boolean("pre.%s.fixed" % k)
        eng.assume(lt(lo, up))
        if within_limits:
            eng.assume(lo <= v)
            eng.assume(v <= up)
        e.set_lower_limits(**{k: -INF})
        e.set_upper_limits(**{k: up})
        e.set_lower_limits(**{k: lo})
        e.set_values(**{k: v})
        e.set_fixed(**{k: fx})
        m.value[k], m.lower[k], m.upper[k], m.fixed[k] = v, lo, up, fx
    lab = ("", "lbl")[eng.choice(2, "pre.label")]
    e.set_label(lab)
    m.label = lab
    return e, m


def check_state(eng, e, m: Model, tag: str):
    vals, lows, ups, fxs = e.get_values(), e.get_lower_limits(), e.get_upper_limits(), e.are_fixed()
    eng.check(list(vals.keys()) == m.keys and list(lows.keys()) == m.keys and list(ups.keys()) == m.keys
              and list(fxs.keys()) == m.keys, tag + ":keys")
    for k in m.keys:
        eng.check(same(vals[k], m.value[k]), tag + ":value", lambda: "%s: got %r expected %r" % (k, vals[k], m.value[k]))
        eng.check(same(lows[k], m.lower[k]), tag + ":lower", lambda: "%s: got %r expected %r" % (k, lows[k], m.lower[k]))
        eng.check(same(ups[k], m.upper[k]), tag + ":upper", lambda: "%s: got %r expected %r" % (k, ups[k], m.upper[k]))
        eng.check(same(fxs[k], m.fixed[k]), tag + ":fixed", lambda: "%s: got %r expected %r" % (k, fxs[k], m.fixed[k]))
        eng.check(lt(lows[k], ups[k]), tag + ":invariant lower<upper", lambda: "%s: %r !< %r" % (k, lows[k], ups[k]))
        # getters agree with each other
        eng.check(same(e.get_value(k), vals[k]) and same(e.get_lower_limit(k), lows[k])
                  and same(e.get_upper_limit(k), ups[k]) and same(e.is_fixed(k), fxs[k]), tag + ":single getters")
    eng.check(e.get_label() == m.label, tag + ":label", lambda: "got %r expected %r" % (e.get_label(), m.label))


def snapshot_class(Class):
    return (dict(Class._parameter_default_value), dict(Class._parameter_default_lower_limit),
            dict(Class._parameter_default_upper_limit), dict(Class._parameter_default_fixed))


def check_isolation(eng, Class, snap, other, tag: str):
    now = snapshot_class(Class)
    ok = True
    for a, b in zip(snap, now):
        if list(a.keys()) != list(b.keys()):
            ok = False
            continue
        for k in a:
            if is_symbolic(b[k]) or not (a[k] == b[k]):
                ok = False
    eng.check(ok, tag + ":class defaults untouched")
    fresh = Class()
    ok = True
    for obj in (other, fresh):
        ok = ok and _plain_equal(obj.get_values(), snap[0]) and _plain_equal(obj.get_lower_limits(), snap[1]) \
            and _plain_equal(obj.get_upper_limits(), snap[2]) and _plain_equal(obj.are_fixed(), snap[3]) \
            and obj.get_label() == ""
    eng.check(ok, tag + ":other instances untouched")


def _plain_equal(d1, d2) -> bool:
    if list(d1.keys()) != list(d2.keys()):
        return False
    for k in d1:
        if is_symbolic(d1[k]) or is_symbolic(d2[k]) or not (d1[k] == d2[k]):
            return False
    return True


def check_no_aliasing(eng, e, Class, tag: str):
    ok = (e._parameter_value is not Class._parameter_default_value
          and e._parameter_lower_limit is not Class._parameter_default_lower_limit
          and e._parameter_upper_limit is not Class._parameter_default_upper_limit
          and e._parameter_fixed is not Class._parameter_default_fixed)
    eng.check(ok, tag + ":no aliasing with class dictionaries")


# --------------------------------------------------------------------------- harnesses
ARG_KINDS = ("finite", "+inf", "-inf", "nan")


def _arg_value(eng, name, with_bad=True):
    kinds = ARG_KINDS + (("text",) if with_bad else ())
    k = kinds[eng.choice(len(kinds), name + ".kind")]
    if k == "finite":
        return eng.real(name)
    if k == "text":
        return "abc"
    return {"+inf": INF, "-inf": -INF, "nan": float("nan")}[k]


def _flag_value(eng, name):
    k = eng.choice(3, name + ".kind")
    if k == 0:
        return eng.boolean(name)
    return (1, "yes")[k - 1]


def make_setter_harness(symbol: str, op: str, npairs: int, value_kinds=("finite",)):
    def harness(eng):
        _, elements = _lib()
        Class = elements[symbol]
        snap = snapshot_class(Class)
        other = Class()
        e, m = build_prestate(eng, Class, value_kinds=value_kinds)
        keys = m.keys + ["bogus"]
        pairs = []
        for i in range(npairs):
            key = keys[eng.choice(len(keys), "arg%d.key" % i)]
            val = _flag_value(eng, "arg%d" % i) if op == "set_fixed" else _arg_value(eng, "arg%d" % i)
            pairs.append((key, val))
        form = ("kw", "pos", "odd", "dup")[eng.choice(4 if npairs == 1 else 2, "form")]
        expected = m.clone()
        fn = getattr(e, op)
        refused_early = False
        if form == "kw":
            if npairs == 2 and pairs[0][0] == pairs[1][0]:
                # the same keyword twice is not expressible; use kw + positional (=> KeyError, nothing applied)
                ok, res = call(fn, pairs[1][0], pairs[1][1], **{pairs[0][0]: pairs[0][1]})
                refused_early = True
            else:
                ok, res = call(fn, **dict(pairs))
        elif form == "pos":
            flat = [x for p in pairs for x in p]
            ok, res = call(fn, *flat)
            if npairs == 2 and pairs[0][0] == pairs[1][0]:
                # the same key in two positional pairs: the documented behaviour is a refusal (KeyError) with nothing applied
                refused_early = True
        elif form == "odd":
            ok, res = call(fn, pairs[0][0])
            refused_early = True
        else:
            ok, res = call(fn, pairs[0][0], pairs[0][1], **{pairs[0][0]: pairs[0][1]})
            refused_early = True
        if refused_early:
            eng.check(not ok, op + ":malformed call refused")
        else:
            try:
                model_apply(expected, op, pairs)
                want_ok = True
            except Refused:
                want_ok = False
            eng.check(ok == want_ok, op + ":accepted iff valid",
                      lambda: "call %s ok=%r expected ok=%r (%r)" % (form, ok, want_ok, res))
            if ok:
                eng.check(res is e, op + ":returns self")
        check_state(eng, e, expected, op)
        check_isolation(eng, Class, snap, other, op)
        check_no_aliasing(eng, e, Class, op)
    return harness


LABELS = ["", "x", "  ab c ", "12", " 7 ", "a1", "1a", "R_2", "café", "٣", 5, None]


def make_label_harness(symbol: str):
    def harness(eng):
        _, elements = _lib()
        Class = elements[symbol]
        snap = snapshot_class(Class)
        other = Class()
        e, m = build_prestate(eng, Class)
        lab = LABELS[eng.choice(len(LABELS), "label.index")]
        expected = m.clone()
        try:
            model_label(expected, lab)
            want_ok = True
        except Refused:
            want_ok = False
        ok, res = call(e.set_label, lab)
        eng.check(ok == want_ok, "set_label:accepted iff valid", lambda: "label %r ok=%r (%r)" % (lab, ok, res))
        check_state(eng, e, expected, "set_label")
        eng.check(e.get_name() == (symbol if expected.label == "" else symbol + "_" + expected.label), "set_label:name")
        check_isolation(eng, Class, snap, other, "set_label")
    return harness


def make_reset_harness(symbol: str, variant: str, value_kinds=("finite",)):
    def harness(eng):
        _, elements = _lib()
        Class = elements[symbol]
        snap = snapshot_class(Class)
        other = Class()
        e, m = build_prestate(eng, Class, value_kinds=value_kinds)
        expected = m.clone()
        if variant == "one":
            k = m.keys[eng.choice(len(m.keys), "reset.key")]
            targets = [k]
            ok, res = call(e.reset_parameter, k)
        elif variant == "some":
            k = m.keys[eng.choice(len(m.keys), "reset.key")]
            targets = [k]
            if eng.choice(2, "reset.form") == 0:
                ok, res = call(e.reset_parameters, k)
            else:
                ok, res = call(e.reset_parameters, **{k: (True, None, 0)[eng.choice(3, "reset.kwvalue")]})     # keyword form: the value can be anything
        else:
            targets = list(m.keys)
            ok, res = call(e.reset_parameters)
        for k in targets:
            expected.value[k], expected.lower[k] = snap[0][k], snap[1][k]
            expected.upper[k], expected.fixed[k] = snap[2][k], snap[3][k]
        eng.check(ok, "reset:succeeds", lambda: "reset(%s) raised %r" % (variant, res))
        if ok:
            check_state(eng, e, expected, "reset")
        check_isolation(eng, Class, snap, other, "reset")
        check_no_aliasing(eng, e, Class, "reset")
    return harness


def make_copy_harness(symbol: str, how: str):
    def harness(eng):
        _, elements = _lib()
        Class = elements[symbol]
        snap = snapshot_class(Class)
        other = Class()
        e, m = build_prestate(eng, Class, within_limits=True)
        if how == "copy":
            ok, c = call(_copy.copy, e)
        else:
            ok, c = call(_copy.deepcopy, e)
        eng.check(ok, how + ":succeeds", lambda: "%s raised %r" % (how, c))
        if ok:
            eng.check(c is not e and type(c) is type(e), how + ":new object of the same class")
            check_state(eng, c, m, how)          # equal to the original
            check_state(eng, e, m, how + ":original")  # original untouched
            # independent: changing the copy does not change the original
            k = m.keys[0]
            c.set_values(**{k: 123.0})
            c.set_fixed(**{k: True})
            c.set_label("other")
            check_state(eng, e, m, how + ":independent")
            check_no_aliasing(eng, c, Class, how)
        check_isolation(eng, Class, snap, other, how)
    return harness


def make_history_harness(symbol: str, length: int):
    """explicit histories from the default state (cross-check that the invariant is not too weak)"""
    OPS = ("set_values", "set_lower_limits", "set_upper_limits", "set_fixed", "reset", "copy")

    def harness(eng):
        _, elements = _lib()
        Class = elements[symbol]
        snap = snapshot_class(Class)
        other = Class()
        e = Class()
        m = Model(list(snap[0].keys()))
        m.value, m.lower, m.upper, m.fixed = dict(snap[0]), dict(snap[1]), dict(snap[2]), dict(snap[3])
        for step in range(length):
            op = OPS[eng.choice(len(OPS), "step%d.op" % step)]
            k = m.keys[eng.choice(len(m.keys), "step%d.key" % step)]
            if op in ("set_values", "set_lower_limits", "set_upper_limits"):
                x = eng.float_any("step%d.arg" % step, kinds=("finite", "+inf", "-inf"))
                ok, res = call(getattr(e, op), **{k: x})
                nxt = m.clone()
                try:
                    model_apply(nxt, op, [(k, x)])
                    want = True
                    m = nxt
                except Refused:
                    want = False
                eng.check(ok == want, "history:accepted iff valid", lambda: "step %d %s(%s=%r) ok=%r" % (step, op, k, x, ok))
            elif op == "set_fixed":
                b = eng.boolean("step%d.arg" % step)
                e.set_fixed(**{k: b})
                m.fixed[k] = b
            elif op == "reset":
                ok, res = call(e.reset_parameter, k)
                eng.check(ok, "history:reset succeeds", lambda: "step %d reset(%s): %r" % (step, k, res))
                m.value[k], m.lower[k], m.upper[k], m.fixed[k] = snap[0][k], snap[1][k], snap[2][k], snap[3][k]
                if not ok:
                    return
            else:
                inside = True
                for kk in m.keys:
                    if not (m.lower[kk] <= m.value[kk]) or not (m.value[kk] <= m.upper[kk]):
                        inside = False
                if inside:
                    ok, c = call(_copy.deepcopy, e)
                    eng.check(ok, "history:deepcopy succeeds", lambda: "step %d deepcopy: %r" % (step, c))
                    if ok:
                        check_state(eng, c, m, "history:deepcopy")
            check_state(eng, e, m, "history")
        check_isolation(eng, Class, snap, other, "history")
    return harness


# --------------------------------------------------------------------------- registry of obligations
def _key(witness, label):
    """name the failing input class (for the known-findings file)"""
    kinds = sorted("%s=%s" % (k, v) for k, v in witness.items() if k.endswith(".kind") and k.startswith("arg"))
    return "%s|%s" % (label, ",".join(kinds))


def obligations(tier: str):
    from sx.runner import Obligation
    import pyimpspec.circuit.base as base
    E = base.Element
    funcs = [E.set_values, E.set_lower_limits, E.set_upper_limits, E.set_fixed, E.set_label, E.reset_parameter,
             E.reset_parameters, E.__copy__, E.__deepcopy__, E.get_values, E.get_lower_limits, E.get_upper_limits,
             E.are_fixed, E.__init__, base.Container.__copy__, base.Container.__deepcopy__, base.Container.__init__]
    classes = CLASSES_QUICK if tier == "quick" else CLASSES_THOROUGH
    obs = []
    value_kinds = ("finite",) if tier == "quick" else ("finite", "+inf", "-inf", "nan")
    for sym in classes:
        for op in ("set_values", "set_lower_limits", "set_upper_limits", "set_fixed"):
            for n in ((1,) if tier == "quick" else (1, 2)):
                if n == 2 and sym not in ("R", "C", "Q"):
                    continue
                vk = value_kinds if n == 1 else ("finite",)
                nm = "%s.%s.%d" % (sym, op, n)
                obs.append(Obligation(nm, make_setter_harness(sym, op, n, vk),
                                      bounds="class %s; one call of %s with %d key/value pair(s); pre-state: every parameter's value "
                                             "(kinds %s), limits (finite or infinite) and fixed flag symbolic" % (sym, op, n, "/".join(vk)),
                                      key=_key, functions=funcs, expect_reach=[op + ":accepted iff valid"]))
        obs.append(Obligation("%s.set_label" % sym, make_label_harness(sym), bounds="class %s; set_label over %d concrete labels" % (sym, len(LABELS)),
                              key=_key, functions=funcs, expect_reach=["set_label:accepted iff valid"]))
        for variant in ("one", "some", "all"):
            obs.append(Obligation("%s.reset.%s" % (sym, variant), make_reset_harness(sym, variant, value_kinds),
                                  bounds="class %s; reset_parameter(s) (%s) from any invariant state" % (sym, variant),
                                  key=_key, functions=funcs, expect_reach=["reset:succeeds"]))
        for how in ("copy", "deepcopy"):
            obs.append(Obligation("%s.%s" % (sym, how), make_copy_harness(sym, how),
                                  bounds="class %s; %s of any invariant state with values inside limits" % (sym, how),
                                  key=_key, functions=funcs, expect_reach=[how + ":succeeds"]))
    if tier == "quick":
        # a class with a parameter that is fixed by default (Warburg's n): copies and the fixed-flag setter
        for how in ("copy", "deepcopy"):
            obs.append(Obligation("W.%s" % how, make_copy_harness("W", how), bounds="class W (n fixed by default); %s of any invariant state with values inside limits" % how,
                                  key=_key, functions=funcs, expect_reach=[how + ":succeeds"]))
        obs.append(Obligation("W.set_fixed.1", make_setter_harness("W", "set_fixed", 1, value_kinds), bounds="class W; one call of set_fixed", key=_key, functions=funcs,
                              expect_reach=["set_fixed:accepted iff valid"]))
    for sym in (("R", "C") if tier == "quick" else ("R", "C", "Q", "W")):
        L = 2
        obs.append(Obligation("%s.history.%d" % (sym, L), make_history_harness(sym, L),
                              bounds="class %s; every history of length %d over 6 operations from the default state" % (sym, L),
                              key=_key, functions=funcs, expect_reach=["history:value"]))
    for o in obs:
        o.replay = o.harness
    return obs


EXPLANATION = (
    "Bounded symbolic execution of the real Element/Container parameter methods (loaded from /repo/src through the sx "
    "loader) with z3: parameter values, limits, fixed flags and call arguments are solver variables; every feasible "
    "path of one API call from an arbitrary invariant-satisfying state is enumerated and, per path, z3 is asked whether "
    "the resulting state can differ from the dictionary reference model.  Histories of bounded length from the default "
    "state cross-check that the invariant is not too weak."
)
ASSUMPTIONS = [
    "floats are modelled as reals (no rounding/overflow); +-inf and nan are explicit separate cases",
    "pre-states are built through the public setters (-inf lower, upper, lower, value, fixed), so each is reachable",
    "labels are enumerated from a fixed concrete list (set_label does C-level string processing)",
]
OUTSIDE = [
    "classes other than those listed in the obligations (all share the Element/Container code)",
    "calls with more than two key/value pairs; histories longer than the stated length",
    "to_string -> parse_cdc round trips (decided under C03)",
]


def replay(obligation: str, witness):
    """run the same harness concretely on the plain library"""
    from sx.concrete import run_concrete
    for tier in replay_tiers():
        for ob in obligations(tier):
            if ob.name == obligation:
                reproduced, msg, _ = run_concrete(ob.harness, witness)
                return reproduced, msg
    raise KeyError(obligation)
