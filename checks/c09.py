"""C09 -- Kramers-Kronig verdicts do not depend on units or point order.

Equivariance of everything around the linear solve, decided with z3 over symbolic frequencies,
time constants, impedances and positive scale factors c (impedance) and s (frequency):
  * the design matrix at (s*w, tau/s) is the design matrix at (w, tau) with rescaled columns
    (A'_ij * A_kj == A'_kj * A_ij: one positive factor per column, zero columns stay zero);
  * the right-hand side for c*Z is c (or 1/c) times the one for Z; the |X|-scaled matrices of the
    inversion variant rescale by exactly the inverse factor and their right-hand side is invariant;
  * the circuit obtained from the rescaled variables has, at s*w, c times the original immittance;
  * residuals, Boukamp weights and pseudo chi-squared are invariant; reversing the points permutes rows.
With the solver contract (the minimiser of an equivalent least-squares problem is the equivalent
point) the statement follows.
"""
from __future__ import annotations

from typing import List

from .common import call, same, is_symbolic, PathAbort, mk_array
from .c07 import _is_zero

PROP = "C09"


def _freqs(eng, n_f):
    fs = [eng.real("f%d" % i, npy=True) for i in range(n_f)]
    for i, f in enumerate(fs):
        eng.assume(f > 0)
        if i:
            eng.assume(fs[i - 1] > f)
    return fs


def _taus(eng, n_rc):
    ts = [eng.real("tau%d" % k, npy=True) for k in range(n_rc)]
    for t in ts:
        eng.assume(t > 0)
    return ts


def _nonvacuous(eng):
    if not eng.possible(True):
        raise PathAbort("vacuous")
    eng.reached("non-vacuous")


def _col_proportional(eng, A, B, label):
    """B = A * diag(d) with d_j > 0: checked without naming d"""
    n, m = A.shape
    eng.check(B.shape == A.shape, label + ":shape")
    ds = []
    for j in range(m):
        za = [_is_zero(A[i, j]) for i in range(n)]
        zb = [_is_zero(B[i, j]) for i in range(n)]
        eng.check(za == zb, label + ":zero pattern", lambda: "column %d" % j)
        nz = [i for i in range(n) if not za[i]]
        if not nz:
            ds.append(None)
            continue
        i0 = nz[0]
        for k in nz[1:]:
            eng.check(same(B[i0, j] * A[k, j], B[k, j] * A[i0, j]), label + ":one factor per column",
                      lambda: "column %d rows %d,%d" % (j, i0, k))
        d = B[i0, j] / A[i0, j]
        eng.check(d > 0, label + ":positive factor", lambda: "column %d factor %r" % (j, d))
        ds.append(d)
    return ds


def make_ls_freq_harness(test, admittance, add_c, add_l, n_rc, n_f):
    def harness(eng):
        import pyimpspec.analysis.kramers_kronig.least_squares as ls
        import pyimpspec.analysis.kramers_kronig.utility as ut
        from sx.shims import PI
        eng.div_zero_policy = "assume"
        fs, ts = _freqs(eng, n_f), _taus(eng, n_rc)
        s = eng.real("s", npy=True)
        eng.assume(s > 0)
        farr, tarr = mk_array(eng, fs), mk_array(eng, ts)
        w = 2 * PI * farr
        A = ls._generate_A_matrix(test, w, tarr, add_c, add_l, admittance)
        A2 = ls._generate_A_matrix(test, w * s, tarr / s, add_c, add_l, admittance)
        _nonvacuous(eng)
        ds = _col_proportional(eng, A, A2, "frequency scaling")
        # the circuit of the rescaled variables, evaluated at the rescaled frequencies, is the same immittance
        n = A.shape[1]
        xs = [eng.real("x%d" % j, npy=True) for j in range(n)]
        for x in xs:
            eng.assume(x != 0)
        x2 = [xs[j] / ds[j] if ds[j] is not None else xs[j] for j in range(n)]
        g1 = ut._generate_circuit(tarr, add_c, add_l, admittance)
        ls._update_circuit(g1, mk_array(eng, xs), add_c, add_l, admittance)
        g2 = ut._generate_circuit(tarr / s, add_c, add_l, admittance)
        ls._update_circuit(g2, mk_array(eng, x2), add_c, add_l, admittance)
        Z1 = g1.get_impedances(farr)
        Z2 = g2.get_impedances(farr * s)
        if test == "complex":
            for i in range(n_f):
                eng.check(same(Z1.flat[i], Z2.flat[i]), "rescaled circuit has the same immittance at the rescaled frequency")
        # impedance scaling: the variables scale by c (impedance) or 1/c (admittance) and the circuit obtained
        # from them has c times the impedance
        c = eng.real("c", npy=True)
        eng.assume(c > 0)
        lam = (1 / c) if admittance else c
        g3 = ut._generate_circuit(tarr, add_c, add_l, admittance)
        ls._update_circuit(g3, mk_array(eng, [x * lam for x in xs]), add_c, add_l, admittance)
        if test == "complex":
            Z3 = g3.get_impedances(farr)
            for i in range(n_f):
                eng.check(same(Z3.flat[i], Z1.flat[i] * c), "the circuit of the rescaled variables has c times the impedance",
                          lambda: "point %d: %r vs %r" % (i, Z3.flat[i], Z1.flat[i] * c))
        # time constants rescale inversely
        e1 = [e for e in g1.get_elements() if "tau" in e.get_values()]
        e2 = [e for e in g2.get_elements() if "tau" in e.get_values()]
        for a, b in zip(e1, e2):
            eng.check(same(a.get_value("tau"), b.get_value("tau") * s), "time constants scale inversely with frequency")
    return harness


def make_ls_imp_harness(test, admittance, n_f):
    def harness(eng):
        import pyimpspec.analysis.kramers_kronig.least_squares as ls
        eng.div_zero_policy = "assume"
        Z = [eng.complex("Z%d" % i) for i in range(n_f)]
        for z in Z:
            eng.assume(z != 0)
        c = eng.real("c", npy=True)
        eng.assume(c > 0)
        Zarr = mk_array(eng, Z, complex)
        b = ls._generate_b_vector(test, Zarr, admittance)
        b2 = ls._generate_b_vector(test, Zarr * c, admittance)
        _nonvacuous(eng)
        for i in range(b.shape[0]):
            exp = b[i] / c if admittance else b[i] * c
            eng.check(same(b2[i], exp), "right-hand side scales with the impedance", lambda: "row %d" % i)
        # reversing the points reverses the rows
        b3 = ls._generate_b_vector(test, mk_array(eng, list(reversed(Z)), complex), admittance)
        m = b.shape[0]
        blocks = 2 if test == "complex" else 1
        k = m // blocks
        for blk in range(blocks):
            for i in range(k):
                eng.check(same(b3[blk * k + i], b[blk * k + (k - 1 - i)]), "point order only permutes rows")
    return harness


def make_ls_order_harness(test, admittance, add_c, add_l, n_rc, n_f):
    def harness(eng):
        import pyimpspec.analysis.kramers_kronig.least_squares as ls
        from sx.shims import PI
        eng.div_zero_policy = "assume"
        fs, ts = _freqs(eng, n_f), _taus(eng, n_rc)
        tarr = mk_array(eng, ts)
        w = 2 * PI * mk_array(eng, fs)
        wr = 2 * PI * mk_array(eng, list(reversed(fs)))
        A = ls._generate_A_matrix(test, w, tarr, add_c, add_l, admittance)
        Ar = ls._generate_A_matrix(test, wr, tarr, add_c, add_l, admittance)
        _nonvacuous(eng)
        m, n = A.shape
        blocks = 2 if test == "complex" else 1
        k = m // blocks
        for blk in range(blocks):
            for i in range(k):
                for j in range(n):
                    eng.check(same(Ar[blk * k + i, j], A[blk * k + (k - 1 - i), j]), "point order only permutes rows")
    return harness


def make_mi_harness(admittance, add_c, n_rc, n_f):
    def harness(eng):
        import pyimpspec.analysis.kramers_kronig.matrix_inversion as mi
        from sx.shims import PI
        eng.div_zero_policy = "assume"
        fs, ts = _freqs(eng, n_f), _taus(eng, n_rc)
        Z = [eng.complex("Z%d" % i) for i in range(n_f)]
        for z in Z:
            eng.assume(z != 0)
        c = eng.real("c", npy=True)
        s = eng.real("s", npy=True)
        eng.assume(c > 0)
        eng.assume(s > 0)
        farr, tarr = mk_array(eng, fs), mk_array(eng, ts)
        w = 2 * PI * farr
        X = mk_array(eng, Z, complex) ** (-1 if admittance else 1)
        X2 = (mk_array(eng, Z, complex) * c) ** (-1 if admittance else 1)
        Are, Aim = mi._generate_A_matrices(w, tarr, add_c, admittance, abs(X))
        Bre, Bim = mi._generate_A_matrices(w, tarr, add_c, admittance, abs(X2))
        Cre, Cim = mi._generate_A_matrices(w * s, tarr / s, add_c, admittance, abs(X))
        _nonvacuous(eng)
        lam = (1 / c) if admittance else c       # X2 = lam * X
        n, m = Are.shape
        for i in range(n):
            eng.check(same(abs(X2)[i], abs(X)[i] * lam), "|X| scales with the impedance")
            eng.check(same((X2.real / abs(X2))[i], (X.real / abs(X))[i]) and True, "scaled right-hand side is invariant (real)")
            eng.check(same((X2.imag / abs(X2))[i], (X.imag / abs(X))[i]) and True, "scaled right-hand side is invariant (imaginary)")
            for j in range(m):
                eng.check(same(Bre[i, j] * lam, Are[i, j]), "scaled matrices rescale inversely with the impedance")
                eng.check(same(Bim[i, j] * lam, Aim[i, j]), "scaled matrices rescale inversely with the impedance")
        # frequency scaling: the stacked matrix [A_re; A_im] keeps one positive factor per column
        from sx.symnp import concatenate
        _col_proportional(eng, concatenate([Are, Aim], axis=0), concatenate([Cre, Cim], axis=0), "frequency scaling")
    return harness


def make_taus_harness(n_f, n_rc):
    """the time constants depend on the set of angular frequencies only (not on their order) and the first one
    is 1/(w_max * F_ext)"""
    def harness(eng):
        import pyimpspec.analysis.kramers_kronig.utility as ut
        from sx.shims import PI
        from sx.values import s_and, s_or
        eng.div_zero_policy = "assume"
        fs = _freqs(eng, n_f)
        lf = eng.real("log_F_ext", npy=False)
        eng.assume(lf >= -1)
        eng.assume(lf <= 1)
        if eng.symbolic:
            w = 2 * PI * mk_array(eng, fs)
            wr = 2 * PI * mk_array(eng, list(reversed(fs)))
        else:
            import numpy as np
            w = 2 * np.pi * mk_array(eng, fs)
            wr = 2 * np.pi * mk_array(eng, list(reversed(fs)))
        t = ut._generate_time_constants(w, n_rc, lf)
        tr = ut._generate_time_constants(wr, n_rc, lf)
        _nonvacuous(eng)
        a, b, c_, d = t[0], t[-1], tr[0], tr[-1]
        if eng.symbolic:
            ok = s_or(s_and(same(a, c_), same(b, d)), s_and(same(a, d), same(b, c_)))
        else:
            import numpy as np
            ok = (np.isclose(a, c_, rtol=1e-9) and np.isclose(b, d, rtol=1e-9)) or (np.isclose(a, d, rtol=1e-9) and np.isclose(b, c_, rtol=1e-9))
        eng.check(ok, "the range of time constants does not depend on the point order",
                  lambda: "(%r, %r) vs reversed input (%r, %r)" % (a, b, c_, d))
    return harness


def make_stats_harness(n_f):
    def harness(eng):
        import pyimpspec.analysis.utility as au
        import pyimpspec.analysis.kramers_kronig.utility as ut
        eng.div_zero_policy = "assume"
        Z = [eng.complex("Z%d" % i) for i in range(n_f)]
        F = [eng.complex("F%d" % i) for i in range(n_f)]
        for z in Z:
            eng.assume(z != 0)
        c = eng.real("c", npy=True)
        eng.assume(c > 0)
        Za, Fa = mk_array(eng, Z, complex), mk_array(eng, F, complex)
        r1 = au._calculate_residuals(Za, Fa)
        r2 = au._calculate_residuals(Za * c, Fa * c)
        x1 = au._calculate_pseudo_chisqr(Za, Fa)
        x2 = au._calculate_pseudo_chisqr(Za * c, Fa * c)
        rr = au._calculate_residuals(mk_array(eng, list(reversed(Z)), complex), mk_array(eng, list(reversed(F)), complex))
        xr = au._calculate_pseudo_chisqr(mk_array(eng, list(reversed(Z)), complex), mk_array(eng, list(reversed(F)), complex))
        _nonvacuous(eng)
        for i in range(n_f):
            eng.check(same(r1[i], r2[i]), "relative residuals are invariant under impedance scaling")
            eng.check(same(rr[i], r1[n_f - 1 - i]), "residuals follow the point order")
        eng.check(same(x1, x2), "pseudo chi-squared is invariant under impedance scaling")
        eng.check(same(x1, xr), "pseudo chi-squared is invariant under point order")
        for admittance in (False, True):
            w1 = ut._boukamp_weight(Za, admittance)
            w2 = ut._boukamp_weight(Za * c, admittance)
            for i in range(n_f):
                exp = w1[i] * c * c if admittance else w1[i] / (c * c)
                eng.check(same(w2[i], exp), "Boukamp weight scales with |X|^-2")
        # chi-squared <-> percent noise are inverse to each other (C08 uses this pair)
        p = eng.real("pct", npy=True)
        eng.assume(p > 0)
        chi = ut._estimate_pseudo_chisqr(Za, p)
        back = ut._estimate_pct_noise(Za, chi)
        eng.check(same(back * back, p * p), "percent noise inverts the pseudo chi-squared estimate")
    return harness


def make_result_stat_harness(test: str, admittance: bool):
    """the pseudo chi-squared *reported* by the exploratory KK driver for a given test does not change when data and fitted circuit
    are expressed in another impedance unit (the kernel is a stub returning an R-K circuit; for the rescaled data it returns the
    same circuit in the new unit)"""
    def harness(eng):
        import pyimpspec.analysis.kramers_kronig.exploratory as ex
        from pyimpspec import parse_cdc
        from pyimpspec.data.data_set import DataSet
        eng.div_zero_policy = "assume"
        n = 4
        fs = [eng.real("f%d" % i, npy=False) for i in range(n)]
        zs = [eng.complex("Z%d" % i, npy=False) for i in range(n)]
        for i in range(n):
            eng.assume(fs[i] > 0)
            if i:
                eng.assume(fs[i - 1] > fs[i])
            eng.assume(zs[i] != 0)
        c = eng.real("c", npy=False)
        eng.assume(c > 0)
        R, K, tau = eng.real("fit.R"), eng.real("fit.K"), eng.real("fit.tau")
        out = []
        for scale in (1, c):
            def kernel(args, scale=scale):
                circ = parse_cdc("RK")
                r, k = circ.get_elements()
                r.set_lower_limits(R=float("-inf"))
                r.set_values(R=R * scale)
                k.set_values(R=K * scale, tau=tau)
                return (args[4], circ)
            saved = (ex._leastsq_test, ex._inversion_test)
            ex._leastsq_test = ex._inversion_test = kernel
            try:
                d = DataSet(list(fs), [z * scale for z in zs])
                out.append(ex.evaluate_log_F_ext(d, test=test, num_RCs=[2], admittance=admittance, num_F_ext_evaluations=0, num_procs=1))
            finally:
                ex._leastsq_test, ex._inversion_test = saved
        _nonvacuous(eng)
        a, b = out[0][0][1][0], out[1][0][1][0]
        eng.check(same(a.pseudo_chisqr, b.pseudo_chisqr), "the reported pseudo chi-squared does not depend on the impedance unit",
                  lambda: "%r vs %r" % (a.pseudo_chisqr, b.pseudo_chisqr))
        ra, rb = list(a.residuals.flat), list(b.residuals.flat)
        for x, y in zip(ra, rb):
            eng.check(same(x, y), "the reported relative residuals do not depend on the impedance unit")
    return harness


def obligations(tier: str):
    from sx.runner import Obligation
    import pyimpspec.analysis.kramers_kronig.least_squares as ls
    import pyimpspec.analysis.kramers_kronig.matrix_inversion as mi
    import pyimpspec.analysis.kramers_kronig.utility as ut
    import pyimpspec.analysis.utility as au
    obs = []
    n_rc, n_f = (2, 2) if tier == "quick" else (4, 4)
    f_ls = [ls._generate_A_matrix, ls._generate_b_vector, ls._update_circuit, ut._generate_circuit]
    for admittance in (False, True):
        for test in ("complex", "real", "imaginary"):
            for add_c in (False, True):
                for add_l in (False, True):
                    tag = "%s.%s.C%d.L%d" % (test, "Y" if admittance else "Z", add_c, add_l)
                    obs.append(Obligation("ls.freq." + tag, make_ls_freq_harness(test, admittance, add_c, add_l, n_rc, n_f),
                                          bounds="least squares %s: A(s*w, tau/s) vs A(w, tau); num_RC=%d, %d frequencies; s>0 symbolic" % (tag, n_rc, n_f),
                                          functions=f_ls, expect_reach=["non-vacuous", "frequency scaling:positive factor"], mode="fresh"))
                    obs.append(Obligation("ls.order." + tag, make_ls_order_harness(test, admittance, add_c, add_l, n_rc, n_f),
                                          bounds="least squares %s: reversed point order" % tag, functions=f_ls,
                                          expect_reach=["non-vacuous", "point order only permutes rows"], mode="fresh"))
            obs.append(Obligation("ls.imp.%s.%s" % (test, "Y" if admittance else "Z"), make_ls_imp_harness(test, admittance, n_f),
                                  bounds="least squares b(c*Z) vs b(Z), %d points, c>0 symbolic" % n_f, functions=f_ls,
                                  expect_reach=["non-vacuous", "right-hand side scales with the impedance"], mode="fresh"))
        for add_c in (False, True):
            obs.append(Obligation("mi.%s.C%d" % ("Y" if admittance else "Z", add_c), make_mi_harness(admittance, add_c, n_rc, n_f),
                                  bounds="matrix inversion: scaled matrices under c*Z and (s*w, tau/s); num_RC=%d, %d frequencies" % (n_rc, n_f),
                                  functions=[mi._generate_A_matrices, mi._scale_A_matrices], expect_reach=["non-vacuous"], mode="fresh",
                                  query_timeout_ms=60000))
    obs.append(Obligation("taus", make_taus_harness(n_f + 1, 3), bounds="_generate_time_constants on %d angular frequencies in either order, log F_ext in [-1, 1], num_RC = 3" % (n_f + 1),
                          functions=[ut._generate_time_constants], expect_reach=["non-vacuous"], mode="fresh",
                          stubs=["log10 and 10**x are uninterpreted: equal arguments give equal time constants; a difference is confirmed numerically by the replay"]))
    import pyimpspec.analysis.kramers_kronig.exploratory as ex
    for test in (("complex", "real-inv") if tier == "quick" else ("complex", "real", "imaginary", "complex-inv", "real-inv", "imaginary-inv")):
        for adm in (False, True):
            obs.append(Obligation("result.%s.%s" % (test, "Y" if adm else "Z"), make_result_stat_harness(test, adm),
                                  bounds="evaluate_log_F_ext (test %s, %s, num_RC 2) on 4 symbolic points and on the same points times a symbolic factor; kernel stubbed" % (
                                      test, "admittance" if adm else "impedance"),
                                  functions=[ex.evaluate_log_F_ext, ex._perform_tests, ex._use_least_squares_fitting, ex._use_matrix_inversion, au._calculate_pseudo_chisqr,
                                             au._calculate_residuals], stubs=["_leastsq_test / _inversion_test return an R-K circuit with symbolic parameters, in the unit of the data"],
                                  expect_reach=["non-vacuous"], mode="fresh", query_timeout_ms=60000))
    obs.append(Obligation("stats", make_stats_harness(n_f), bounds="residuals, Boukamp weight, pseudo chi-squared, noise estimate; %d points" % n_f,
                          functions=[au._calculate_residuals, au._calculate_pseudo_chisqr, au._boukamp_weight, ut._boukamp_weight,
                                     ut._estimate_pct_noise, ut._estimate_pseudo_chisqr], expect_reach=["non-vacuous"], mode="fresh"))
    for o in obs:
        o.replay = True
    return obs


EXPLANATION = (
    "Metamorphic relations decided symbolically with z3: the real design-matrix, right-hand-side, circuit-update, residual, weight "
    "and chi-squared code runs on symbolic spectra and on their rescaled / reordered counterparts with symbolic positive scale factors; "
    "z3 (after polynomial normalisation) decides whether the two results can fail to be related by the expected column/row scaling."
)
ASSUMPTIONS = [
    "solver contract: the minimiser of an equivalent least-squares problem (columns rescaled by positive factors, rows permuted, "
    "right-hand side scaled) is the equivalent point, so residuals are unchanged",
    "time constants of the rescaled problem are tau/s (they are derived from min/max omega; see C07 assumptions)",
    "floats as reals; |X| != 0",
]
OUTSIDE = ["conditioning; the F_ext search and the choice of num_RC; the cnls implementation"]


def replay(obligation: str, witness):
    if obligation == "taus":
        from sx.concrete import run_concrete
        w = dict(witness)
        if w.get("log_F_ext") in (None, 0, "0"):
            w["log_F_ext"] = "1/2"
        for ob in obligations("quick"):
            if ob.name == "taus":
                reproduced, msg, _ = run_concrete(ob.harness, w)
                return reproduced, msg
    return _replay_numeric(obligation, witness)


def _replay_numeric(obligation: str, witness):
    """numerical confirmation on the plain library: run the public test on a mock spectrum and on its
    rescaled / reversed counterpart and compare pseudo chi-squared"""
    import numpy as np
    from pyimpspec import DataSet, perform_kramers_kronig_test
    f = np.logspace(4, 0, 21)
    w = 2 * np.pi * f
    Z = 50 + 100 / (1 + 1j * w * 1e-2) + 200 / (1 + (1j * w * 0.3) ** 0.8)
    parts = obligation.split(".")
    admittance = ".Y" in obligation
    test = next((t for t in ("complex", "real", "imaginary") if t in parts), "complex")
    impl = "-inv" if parts[0] == "mi" else ""
    scalings = ((1e3, 1.0), (1.0, 1e2), (1e-2, 1e-2), (1e6, 1.0), (1e-6, 1.0), (1.0, 1e6), (1.0, 1e-6))
    if parts[0] == "result":
        test, impl = parts[1], ""
        scalings = ((1e3, 1.0), (1e-2, 1.0), (1e6, 1.0))       # this obligation is about the impedance unit only
    worst = 0.0
    try:
        base = perform_kramers_kronig_test(DataSet(f, Z), test=test + impl, num_RC=8, admittance=admittance, num_F_ext_evaluations=0, add_capacitance=True, add_inductance=True)
        for c, s in scalings:
            other = perform_kramers_kronig_test(DataSet(f * s, Z * c), test=test + impl, num_RC=8, admittance=admittance, num_F_ext_evaluations=0, add_capacitance=True, add_inductance=True)
            worst = max(worst, abs(other.pseudo_chisqr - base.pseudo_chisqr) / base.pseudo_chisqr)
    except Exception as e:
        return False, "replay failed to run: %r" % (e,)
    if worst > 1e-4:
        return True, "%s: pseudo chi-squared changes by a relative %.3g under rescaling" % (obligation, worst)
    return False, "largest relative change of pseudo chi-squared %.3g" % worst
