"""Helpers shared by the check harnesses; they work on symbolic values (under sx.engine.Engine) and on
plain Python values (under sx.concrete.ConcreteEngine, for replays)."""
from __future__ import annotations

import math
import os
import sys
from typing import Any, Callable, Dict, List, Tuple

ROOT = os.path.dirname(os.path.dirname(os.path.abspath(__file__)))
if ROOT not in sys.path:
    sys.path.insert(0, ROOT)

from sx.values import is_symbolic, s_and, s_not, s_or  # noqa: E402
from sx.engine import PathAbort, SxInconclusive  # noqa: E402


def isnan(x) -> bool:
    return (not is_symbolic(x)) and isinstance(x, float) and math.isnan(x)


def isinf(x) -> bool:
    return (not is_symbolic(x)) and isinstance(x, float) and math.isinf(x)


def same(a, b):
    """value equality with nan == nan; SBool/bool"""
    if is_symbolic(a) or is_symbolic(b):
        if isnan(a) or isnan(b):
            return False
        r = (a == b)
        if r is NotImplemented:
            return False
        return r
    if isinstance(a, float) and isinstance(b, float) and math.isnan(a) and math.isnan(b):
        return True
    if type(a) is bool or type(b) is bool:
        return type(a) is type(b) and a == b
    return a == b


def close(a, b, rel=1e-9):
    """same() under the symbolic engine (exact over the reals); in concrete replays, where the oracle and the code round
    differently, equality up to a relative tolerance"""
    if is_symbolic(a) or is_symbolic(b):
        return same(a, b)
    try:
        if a == b:
            return True
        return abs(a - b) <= rel * max(abs(a), abs(b))
    except Exception:
        return same(a, b)


def replay_tiers():
    """tiers to look an obligation up in during a replay: the tier of the run that produced the witness first"""
    import os
    t = os.environ.get("SX_REPLAY_TIER", "quick")
    return (t, "thorough" if t == "quick" else "quick")


def lt(a, b):
    return a < b


def call(fn: Callable, *args, **kwargs) -> Tuple[bool, Any]:
    """(True, result) or (False, exception).  Engine control-flow exceptions pass through."""
    try:
        return True, fn(*args, **kwargs)
    except Exception as e:   # PathAbort / SxInconclusive are BaseException
        return False, e


def plain_float(x):
    return x


def fmt(x) -> str:
    try:
        return repr(x)
    except Exception:
        return "<?>"


def mk_array(eng, values, dtype=float):
    """SArr under the symbolic engine, a real numpy array in concrete replays"""
    import numpy as np
    if getattr(eng, "symbolic", False):
        from sx.symnp import SArr
        return SArr(list(values), (len(values),), np.dtype(dtype))
    return np.array(list(values), dtype=dtype)
