"""C04 -- parse_cdc is total: a circuit or a parsing error, never a crash.

Two obligations that compose (process() is `while chars: main_loop()`; Parser.process consumes the
token list the tokenizer produced):
  tok.*    one call of the real Tokenizer.main_loop from every tokenizer state on an arbitrary remaining
           input of symbolic characters (any code point): only UnexpectedCharacter / ValueError escape,
           otherwise >= 1 character is consumed and <= 1 token with the token invariants is appended;
  parse.*  the real Parser.process over lazy token lists (token kinds decided only when the parser
           inspects them; identifier texts from a vocabulary; numbers symbolic): only parsing errors or
           ValueError escape, and an accepted list yields a well-formed circuit.
"""
from __future__ import annotations

import math
from typing import Any, List

from .common import call, same, is_symbolic, PathAbort, replay_tiers

PROP = "C04"
PREV = ("none", "colon", "lcurly", "comma", "other")


def _allowed(exc) -> bool:
    from pyimpspec.exceptions import ParsingError, UnexpectedCharacter
    return isinstance(exc, (ParsingError, UnexpectedCharacter, ValueError))


# --------------------------------------------------------------------------- tokenizer step
def make_tok_harness(prev: str, length: int):
    def harness(eng):
        import pyimpspec.circuit.tokenizer as tk
        from sx.strs import SStr, schar, SChar
        t = tk.Tokenizer()
        chars = [schar("c%d" % i) for i in range(length)] if eng.symbolic else [chr(eng.integer("c%d" % i)) for i in range(length)]
        prefix = {"none": [], "colon": [tk.Colon(0, 1, ":")], "lcurly": [tk.LCurly(0, 1, "{")], "comma": [tk.Comma(0, 1, ",")],
                  "other": [tk.RParen(0, 1, ")")]}[prev]
        off = 1 if prefix else 0
        lead = {"none": "", "colon": ":", "lcurly": "{", "comma": ",", "other": ")"}[prev]
        if eng.symbolic:
            t._original = SStr(list(lead) + chars)
        else:
            t._original = lead + "".join(chars)
        t._chars = list(chars)
        t._tokens = list(prefix)
        t._value = ""
        t._index = off
        t._start = off
        t._end = -1
        n_tok = len(t._tokens)
        ok, res = call(t.main_loop)
        if not ok:
            eng.check(_allowed(res), "only tokenizing errors escape the tokenizer",
                      lambda: "%s: %s after %r on %r" % (type(res).__name__, res, prev, t._original))
            eng.reached("step")
            return
        consumed = length - len(t._chars)
        eng.check(consumed >= 1, "progress: at least one character consumed")
        eng.check(t._index == off + consumed and t._start == t._index and t._value == "", "scanner state reset")
        new = t._tokens[n_tok:]
        eng.check(len(new) <= 1 and t._tokens[:n_tok] == prefix, "at most one token appended")
        eng.reached("step")
        if not new:
            return
        tok = new[0]
        kinds = (tk.Identifier, tk.Label, tk.Number, tk.FixedNumber, tk.LBracket, tk.RBracket, tk.LParen, tk.RParen, tk.LCurly,
                 tk.RCurly, tk.Equals, tk.ForwardSlash, tk.Percent, tk.Comma, tk.Colon, tk.Exclamation)
        eng.check(type(tok) in kinds, "token class")
        eng.check(tok.start >= off and tok.start < tok.end and tok.end == off + consumed, "token span")
        if type(tok) is tk.Label:
            eng.check(prev == "colon", "a label follows a colon")
        if prev == "colon":
            eng.check(type(tok) is not tk.Identifier, "no identifier directly after a colon")
        if type(tok) is tk.Identifier:
            v = tok.value
            eng.check(len(v) == tok.end - tok.start, "identifier text is the consumed text")
            eng.check(bool(v.isidentifier()), "identifier text is an identifier")
        if type(tok) in (tk.Number, tk.FixedNumber):
            v = tok.value
            if is_symbolic(v):
                eng.check(True, "numeric value")
            else:
                eng.check(isinstance(v, float), "numeric value")
    return harness


# --------------------------------------------------------------------------- lazy token lists
VOCAB = ["R", "Q", "Tlm", "Zz", "Y", "n", "L", "X_1", "Zeta", "bogus", "inf", "open", "short", "zero", "V", "v"]
LABELS = ["a", "lbl 1", "x{y}z"]
KIND_NAMES = ["Identifier", "Label", "Number", "FixedNumber", "LBracket", "RBracket", "LParen", "RParen", "LCurly", "RCurly",
              "Equals", "ForwardSlash", "Percent", "Comma", "Colon", "Exclamation"]
PUNCT = {"LBracket": "[", "RBracket": "]", "LParen": "(", "RParen": ")", "LCurly": "{", "RCurly": "}", "Equals": "=",
         "ForwardSlash": "/", "Percent": "%", "Comma": ",", "Colon": ":", "Exclamation": "!"}


class _FormatOnly:
    """`.value` of a token whose kind the parser has not pinned down (only ever formatted into an error
    message); any other use resolves the token first."""
    _sx_symbolic = True

    def __init__(self, tok):
        self._tok = tok

    def _r(self):
        return self._tok.resolve_value()

    def __format__(self, spec):
        return "<token %d>" % self._tok.i

    __str__ = lambda self: "<token %d>" % self._tok.i
    __repr__ = __str__

    def __eq__(self, o):
        return self._r() == o

    def __ne__(self, o):
        return self._r() != o

    def __hash__(self):
        return hash(self._r())

    def __sx_in__(self, c):
        from sx.shims import sx_in
        return sx_in(self._r(), c)

    def __sx_float__(self):
        from sx.shims import sx_float
        return sx_float(self._r())

    def __sx_int__(self, *a):
        from sx.shims import sx_int
        return sx_int(self._r(), *a)

    def __getattr__(self, name):
        if name.startswith("__"):
            raise AttributeError(name)
        return getattr(self._r(), name)

    def __mul__(self, o):
        return self._r() * o

    def __rmul__(self, o):
        return o * self._r()

    def __lt__(self, o):
        return self._r() < o

    def __gt__(self, o):
        return self._r() > o

    def __le__(self, o):
        return self._r() <= o

    def __ge__(self, o):
        return self._r() >= o


class _LazyKind:
    _sx_symbolic = True

    def __init__(self, tok):
        self.tok = tok

    def __sx_is__(self, other):
        return self.tok._is(other)

    def __eq__(self, other):
        return self.tok._is(other)

    def __ne__(self, other):
        return not self.tok._is(other)

    def __hash__(self):
        return hash(self.tok.concrete_class())

    @property
    def __name__(self):
        return self.tok.concrete_class().__name__

    def __repr__(self):
        return "<kind of token %d>" % self.tok.i


class LazyToken:
    """a token whose class is a solver variable, decided only when the parser inspects it"""
    _sx_symbolic = True

    def __init__(self, eng, i, classes, token_base):
        self.eng, self.i, self.classes, self.base = eng, i, classes, token_base
        self.kind = eng.integer("t%d.kind" % i, 0, len(classes) - 1).term
        self.start, self.end = i, i + 1
        self._value = None
        self._resolved = False

    def _is(self, cls) -> bool:
        if cls is self.base or cls is object:
            return True
        try:
            k = self.classes.index(cls)
        except ValueError:
            return False
        return self.eng.decide(self.kind == k)

    def __sx_type__(self):
        return _LazyKind(self)

    def __sx_isinstance__(self, cls):
        return self._is(cls)

    def __sx_is__(self, other):
        return other is self

    def concrete_class(self):
        v = self.eng.concretize(self.kind)
        return self.classes[v.as_long()]

    def _determined(self):
        m = self.eng.model
        if m is None:
            self.eng._check()
            m = self.eng.model
        if m is None:
            return None
        v = m.eval(self.kind, model_completion=True)
        if self.eng.implied(self.kind == v, light=False):
            return self.classes[v.as_long()]
        return None

    def resolve_value(self):
        if self._resolved:
            return self._value
        name = self.concrete_class().__name__
        e = self.eng
        if name in ("Number", "FixedNumber"):
            # a numeral is a finite real -- or +inf if the current tokenizer turns a literal beyond the double
            # range (1e999) into a Number token (probed concretely on the real tokenizer)
            val = e.float_any("t%d.num" % self.i, kinds=_number_kinds())
        elif name == "Identifier":
            val = VOCAB[e.choice(len(VOCAB), "t%d.ident" % self.i)]
        elif name == "Label":
            val = LABELS[e.choice(len(LABELS), "t%d.label" % self.i)]
        else:
            val = PUNCT[name]
        self._value, self._resolved = val, True
        return val

    @property
    def value(self):
        if self._resolved:
            return self._value
        if self._determined() is None:
            return _FormatOnly(self)
        return self.resolve_value()

    def __repr__(self):
        return "<LazyToken %d>" % self.i


_PROBE = {}


def _overflow_literals_tokenise(text: str = "1e999") -> bool:
    """does the current tokenizer turn a literal beyond the double range into an infinite Number token?"""
    if text not in _PROBE:
        import pyimpspec.circuit.tokenizer as tk
        try:
            toks = tk.Tokenizer().process(text)
            _PROBE[text] = len(toks) == 1 and toks[0].value in (float("inf"), float("-inf"))
        except Exception:
            _PROBE[text] = False
    return _PROBE[text]


def _number_kinds():
    return ("finite",) + (("+inf",) if _overflow_literals_tokenise("1e999") else ()) + (("-inf",) if _overflow_literals_tokenise("-1e999") else ())


def _token_classes(tk):
    return [getattr(tk, n) for n in KIND_NAMES]


def lazy_tokens(eng, n, tk):
    import z3
    classes = _token_classes(tk)
    toks = [LazyToken(eng, i, classes, tk.Token) for i in range(n)]
    LABEL, COLON, IDENT = KIND_NAMES.index("Label"), KIND_NAMES.index("Colon"), KIND_NAMES.index("Identifier")
    for i, t in enumerate(toks):
        # tokenizer invariants (established by the tok.* obligations)
        if i == 0:
            eng.axiom(t.kind != LABEL)
        else:
            eng.axiom(z3.Implies(t.kind == LABEL, toks[i - 1].kind == COLON))
            eng.axiom(z3.Implies(toks[i - 1].kind == COLON, t.kind != IDENT))
    return toks


def render_tokens(witness, n):
    """text of a token list from a witness (kinds, identifier/label choices, numbers)"""
    from fractions import Fraction
    parts = []
    for i in range(n):
        k = witness.get("t%d.kind" % i)
        if k is None:
            k = KIND_NAMES.index("Exclamation")
        name = KIND_NAMES[int(k)]
        if name in ("Number", "FixedNumber"):
            v = witness.get("t%d.num" % i, 1)
            v = 1 if v is None else v
            nk = _number_kinds()[int(witness.get("t%d.num.kind" % i) or 0)] if int(witness.get("t%d.num.kind" % i) or 0) < len(_number_kinds()) else "finite"
            if nk != "finite":
                parts.append(("1e999" if nk == "+inf" else "-1e999") + ("F" if name == "FixedNumber" else ""))
                continue
            f = float(Fraction(v)) if isinstance(v, str) and "/" in v else float(str(v).rstrip("?"))
            txt = repr(f)
            if "inf" in txt or "nan" in txt:
                txt = "1e308"
            parts.append(txt + ("F" if name == "FixedNumber" else ""))
        elif name == "Identifier":
            parts.append(VOCAB[int(witness.get("t%d.ident" % i) or 0)])
        elif name == "Label":
            parts.append(LABELS[int(witness.get("t%d.label" % i) or 0)])
        else:
            parts.append(PUNCT[name])
    return parts


def check_wellformed(eng, circuit):
    from pyimpspec.circuit.base import Element, Connection, Container
    from pyimpspec.circuit.series import Series
    from pyimpspec.circuit.parallel import Parallel

    def walk(x, depth=0):
        if isinstance(x, Connection):
            eng.check(type(x) in (Series, Parallel), "connection class")
            for k in x._elements:
                walk(k, depth + 1)
        elif isinstance(x, Element):
            lo, up = x.get_lower_limits(), x.get_upper_limits()
            for key in x.get_values():
                eng.check(lo[key] < up[key], "parsed element keeps lower < upper")
            if isinstance(x, Container):
                for key, sub in x.get_subcircuits().items():
                    eng.check(sub is None or isinstance(sub, Connection), "sub-circuit is a connection or None")
                    if sub is not None:
                        walk(sub, depth + 1)
        else:
            eng.check(False, "only elements and connections inside a circuit", lambda: "found %r" % (x,))
    walk(circuit._elements)
    from .c03 import Sentinels, parse_tokens
    from sx.values import s_and
    S = Sentinels()
    eng.scratch["format_hook"] = lambda fmt, v: fmt % S.new(v)
    ok, txt = call(circuit.to_string, 12)
    eng.check(ok and isinstance(txt, str), "accepted circuit can be serialised", lambda: "to_string raised %r" % (txt,))
    if not ok:
        return
    # the extended serialisation is itself accepted whenever the values lie within their limits
    conds = []
    for e in circuit._elements._get_elements_recursive():
        lo, up, vals = e.get_lower_limits(), e.get_upper_limits(), e.get_values()
        for key in vals:
            conds.append(lo[key] <= vals[key])
            conds.append(vals[key] <= up[key])
    within = s_and(*conds) if conds else True
    if bool(within):
        if eng.symbolic:
            ok2, again = parse_tokens(eng, txt, S)
        else:
            from pyimpspec import parse_cdc
            ok2, again = call(parse_cdc, txt)
        eng.check(ok2, "the serialisation of an accepted circuit with values within limits is accepted again",
                  lambda: "%r: %s: %s" % (txt, type(again).__name__, again))
        if not conds:
            # a circuit without elements prints no numbers: its serialisation with the version header goes through the public parse_cdc as it is
            from pyimpspec import parse_cdc
            ok3, ser = call(circuit.serialize)
            ok4, again = call(parse_cdc, ser) if ok3 else (False, ser)
            eng.check(ok3 and ok4, "the serialisation of an accepted circuit with values within limits is accepted again",
                      lambda: "serialize() = %r: %s: %s" % (ser, type(again).__name__, again))


def make_parse_harness(n: int):
    def harness(eng):
        import pyimpspec.circuit.parser as pm
        import pyimpspec.circuit.tokenizer as tk
        if not eng.symbolic:
            # concrete replay: render the witness to text and go through the public parse_cdc
            from pyimpspec import parse_cdc
            parts = render_tokens(eng.witness, n)
            text = " ".join(parts)
            real = tk.Tokenizer().process(text)
            want = [KIND_NAMES[int(eng.witness.get("t%d.kind" % i) if eng.witness.get("t%d.kind" % i) is not None else 15)] for i in range(n)]
            got = [type(t).__name__ for t in real]
            if got != want:
                raise PathAbort("token list is not reachable from text (%r tokenises as %r, wanted %r)" % (text, got, want))
            ok, res = call(parse_cdc, text)
            if not ok:
                eng.check(_allowed(res), "only parsing errors escape the parser", lambda: "parse_cdc(%r): %s: %s" % (text, type(res).__name__, res))
            else:
                check_wellformed(eng, res)
            return
        toks = lazy_tokens(eng, n, tk)

        class FakeTokenizer:
            def process(self, string):
                return list(toks)
        saved = pm.Tokenizer
        pm.Tokenizer = FakeTokenizer
        try:
            ok, res = call(pm.Parser().process, "x")
        finally:
            pm.Tokenizer = saved
        # make every token concrete enough to be rendered for the replay
        eng.reached("parsed")
        if not ok:
            if not _allowed(res):
                for t in toks:
                    t.resolve_value()
            eng.check(_allowed(res), "only parsing errors escape the parser", lambda: "%s: %s" % (type(res).__name__, res))
            return
        for t in toks:
            t.resolve_value()
        check_wellformed(eng, res)
    return harness


# --------------------------------------------------------------------------- valid skeletons with symbolic holes
SKELETONS = [
    "( R Tlm { X_1 = R } )",
    "R { R = 10 } Tlm { X_1 = R { R = 2 } }",
    "R { R = 1 / 0 / 2 : a } ( C Q )",
    "! V = 1 ! [ R ( C [ R W ] ) ]",
    "Tlm { X_1 = open , X_2 = short , Zeta = ( R C ) , L = 2 F }",
    "Q { Y = 1e-3 / 50 % / 200 % , n = 0.5 f // 1 }",
    "( [ R C ] [ R ( L Q ) ] )",
    "Tlm { Z_A = [ R ] , Z_B = Tlm { X_2 = R } : lbl 1 }",
]


def make_skeleton_harness(index: int, holes: int, truncate: bool):
    """a grammar-derived valid code whose tokens are kept, except `holes` positions (chosen by the
    solver-driven exploration) that become arbitrary tokens; optionally cut after any prefix"""
    def harness(eng):
        import pyimpspec.circuit.parser as pm
        import pyimpspec.circuit.tokenizer as tk
        from pyimpspec import parse_cdc
        text = SKELETONS[index]
        base = tk.Tokenizer().process(text)
        n = len(base)
        cut = n
        if truncate:
            cut = 1 + eng.choice(n, "cut")
        pos = []
        for h in range(holes):
            lo = (pos[-1] + 1) if pos else 0
            if lo >= cut:
                raise PathAbort("no room for another hole")
            pos.append(lo + eng.choice(cut - lo, "hole%d" % h))
        if not eng.symbolic:
            parts = [text[t.start:t.end] for t in base[:cut]]
            ren = render_tokens(eng.witness, n)
            for p_ in pos:
                parts[p_] = ren[p_]
            txt = " ".join(parts)
            real = tk.Tokenizer().process(txt)
            want = [type(t).__name__ for t in base[:cut]]
            for p_ in pos:
                k = eng.witness.get("t%d.kind" % p_)
                want[p_] = KIND_NAMES[int(k if k is not None else 15)]
            got = [type(t).__name__ for t in real]
            if got != want:
                raise PathAbort("token list is not reachable from text (%r tokenises as %r, wanted %r)" % (txt, got, want))
            ok, res = call(parse_cdc, txt)
            if not ok:
                eng.check(_allowed(res), "only parsing errors escape the parser", lambda: "parse_cdc(%r): %s: %s" % (txt, type(res).__name__, res))
            else:
                check_wellformed(eng, res)
            return
        import z3
        classes = _token_classes(tk)
        toks = list(base[:cut])
        LABEL, COLON, IDENT = KIND_NAMES.index("Label"), KIND_NAMES.index("Colon"), KIND_NAMES.index("Identifier")
        lazies = []
        for p_ in pos:
            lt = LazyToken(eng, p_, classes, tk.Token)
            toks[p_] = lt
            lazies.append(lt)

        def kind_of(i):
            t = toks[i]
            return t.kind if isinstance(t, LazyToken) else z3.IntVal(KIND_NAMES.index(type(t).__name__))
        for i in range(len(toks)):
            if i == 0:
                eng.axiom(kind_of(0) != LABEL)
            else:
                eng.axiom(z3.Implies(kind_of(i) == LABEL, kind_of(i - 1) == COLON))
                eng.axiom(z3.Implies(kind_of(i - 1) == COLON, kind_of(i) != IDENT))
        if not eng.possible(True):
            raise PathAbort("hole placement contradicts the tokenizer invariants")

        class FakeTokenizer:
            def process(self, string):
                return list(toks)
        saved = pm.Tokenizer
        pm.Tokenizer = FakeTokenizer
        try:
            ok, res = call(pm.Parser().process, "x")
        finally:
            pm.Tokenizer = saved
        eng.reached("parsed")
        if not ok:
            if not _allowed(res):
                for t in lazies:
                    t.resolve_value()
            eng.check(_allowed(res), "only parsing errors escape the parser", lambda: "%s: %s (%s)" % (type(res).__name__, res, text))
            return
        for t in lazies:
            t.resolve_value()
        check_wellformed(eng, res)
    return harness


# --------------------------------------------------------------------------- obligations
def make_empty_harness():
    """the empty circuit: every text that parse_cdc accepts as a circuit without elements has serialisations (plain and with the version
    header) that are accepted again and denote the empty circuit"""
    TEXTS = ["", "[]", " ", "\t[]\n", "!V=1![]", "[ ]", "()", "!V=1!"]

    def harness(eng):
        from pyimpspec import parse_cdc
        from pyimpspec.exceptions import ParsingError
        text = TEXTS[eng.choice(len(TEXTS), "text")]
        eng.note_input("cdc", text)
        ok, c = call(parse_cdc, text)
        eng.check(ok or isinstance(c, (ParsingError, ValueError)), "only parsing errors escape the parser", lambda: "%r: %s: %s" % (text, type(c).__name__, c))
        if ok:
            eng.check(len(c.get_elements()) == 0, "empty:an element-free text denotes the empty circuit")
            for how in ("serialize", "to_string"):
                ok2, ser = call(getattr(c, how))
                ok3, again = call(parse_cdc, ser) if ok2 else (False, ser)
                eng.check(ok2 and ok3 and len(again.get_elements()) == 0, "the serialisation of an accepted circuit with values within limits is accepted again",
                          lambda: "%s() of parse_cdc(%r) = %r: %s: %s" % (how, text, ser, type(again).__name__, again))
            eng.reached("empty:accepted")
        eng.reached("empty")
    return harness


def obligations(tier: str):
    from sx.runner import Obligation
    import pyimpspec.circuit.tokenizer as tk
    funcs = [tk.Tokenizer.main_loop, tk.Tokenizer.identifier_or_label, tk.Tokenizer.number, tk.Tokenizer.peek, tk.Tokenizer.accept,
             tk.Tokenizer.pop, tk.Tokenizer.consume, tk.Tokenizer.push, tk.Tokenizer.ignore, tk.Identifier.__post_init__]
    obs = []
    maxlen = 5 if tier == "quick" else 6
    for prev in PREV:
        for L in range(1, maxlen + 1):
            o = Obligation("tok.%s.%d" % (prev, L), make_tok_harness(prev, L),
                           bounds="one Tokenizer.main_loop call; previous token %s; remaining input = %d symbolic characters (any code point)" % (prev, L),
                           functions=funcs, expect_reach=["step"],
                           stubs=["float(text) of symbolic digits: syntax decided exactly (ASCII), value an uninterpreted finite real with the sign of the text"])
            o.replay = o.harness
            obs.append(o)
    import pyimpspec.circuit.parser as pm
    pf = [pm.Parser.process, pm.Parser.main_loop, pm.Parser.connection, pm.Parser.element, pm.Parser.parameters, pm.Parser.subcircuit,
          pm.Parser.param, pm.Parser.param_limit, pm.Parser.migrate, pm.Parser.accept, pm.Parser.expect, pm.Parser.expect_number,
          pm.Parser.pop_token, pm.Parser.pop_stack, pm.Parser.peek]
    maxtok = 4 if tier == "quick" else 5
    for n in range(1, maxtok + 1):
        o = Obligation("parse.%d" % n, make_parse_harness(n),
                       bounds="Parser.process over every list of %d tokens: 16 token classes decided lazily, identifier texts from %r, "
                              "labels from %r, numbers symbolic reals; tokenizer invariants (label only after colon, no identifier directly "
                              "after a colon) assumed" % (n, VOCAB, LABELS),
                       functions=pf, expect_reach=["parsed"], max_paths=3000000,
                       stubs=["Tokenizer.process replaced by a lazy token list", "printed numbers in to_string replaced by a placeholder"])
        o.replay = o.harness
        obs.append(o)
    for i, text in enumerate(SKELETONS):
        for holes in ((0, 1) if tier == "quick" else (0, 1, 2)):
            o = Obligation("skeleton.%d.h%d" % (i, holes), make_skeleton_harness(i, holes, truncate=True),
                           bounds="valid code %r cut after any prefix, %d token position(s) replaced by arbitrary tokens" % (text, holes),
                           functions=pf, expect_reach=["parsed"], max_paths=3000000,
                           stubs=["Tokenizer.process replaced by the real token list of the code with lazy tokens in the holes"])
            o.replay = o.harness
            obs.append(o)
    import pyimpspec.circuit.parser as pm_
    o = Obligation("empty", make_empty_harness(), bounds="8 element-free texts (empty, blanks, [], with version header, empty parentheses): bounded enumeration",
                   functions=[pm_.Parser.process], expect_reach=["empty", "empty:accepted"])
    o.replay = o.harness
    obs.append(o)
    return obs


EXPLANATION = (
    "Bounded symbolic execution with z3 of the real tokenizer (inductive step over symbolic characters of any code point) and of the "
    "real parser over lazy token lists; z3 decides which branches are feasible and whether any exception other than the documented "
    "parsing/tokenizing errors can escape."
)
ASSUMPTIONS = ["numerals denote finite reals or +inf (a literal beyond the double range)", "only ASCII classification is modelled for symbolic characters"]
OUTSIDE = ["tokens longer than the stated number of characters", "recursion depth (about 1000 nested brackets)"]


def replay(obligation: str, witness):
    from sx.concrete import run_concrete
    for tier in replay_tiers():
        for ob in obligations(tier):
            if ob.name == obligation:
                reproduced, msg, _ = run_concrete(ob.harness, witness)
                return reproduced, msg
    raise KeyError(obligation)
