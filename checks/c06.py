"""C06 -- writing a spectrum as a table and parsing it returns it (PARTIAL: the table level).

The post-pandas pipeline dataframe_to_data_sets = _detect_columns -> _extract_data -> _split_sweeps and
the emitter DataSet.to_dataframe run on a stand-in table (column names + rows).  Headers are built by
the harness from the documented aliases (every alias of every quantity, a leading hyphen or minus sign,
three letter cases, a list of unit suffixes, every column order); cell values are symbolic reals;
sweeps are symbolic frequency runs.  z3 decides whether the returned data sets can differ from what the
writer wrote (frequencies, impedances with the documented sign, one data set per sweep, in order).
"""
from __future__ import annotations

import itertools
from typing import Any, Dict, List

from .common import call, same, is_symbolic, PathAbort, mk_array, replay_tiers

PROP = "C06"

ALIASES = {
    "frequency": ["frequency", "freq", "f"],
    "imaginary": ['z"', "z''", "z im", "z_im", "zim", "imaginary", "imag", "im"],
    "real": ["z'", "z re", "z_re", "zre", "real", "re"],
    "magnitude": ["|z|", "z", "magnitude", "modulus", "mag", "mod"],
    "phase": ["phase", "phz", "phi"],
}
SUFFIXES = ["", " (ohm)", "(Z)", " / unit", "  "]
CANON = {"frequency": "f (Hz)", "real": "Re(Z) (ohm)", "imaginary": "Im(Z) (ohm)", "magnitude": "Mod(Z) (ohm)", "phase": "Phase(Z) (deg.)"}


class FakeDF:
    """stand-in for pandas.DataFrame at the table level: column names and rows"""

    def __init__(self, data=None, columns=None, rows=None):
        if isinstance(data, dict):
            self.columns = list(data.keys())
            cols = [list(v.flat) if hasattr(v, "flat") else list(v) for v in data.values()]
            n = len(cols[0]) if cols else 0
            self.values = [[c[i] for c in cols] for i in range(n)]
        else:
            self.columns = list(columns)
            self.values = [list(r) for r in rows]


class NumeralCell:
    """a table cell holding the decimal-comma text of a number (what pandas yields for a column it could not convert):
    type() is str, .replace(",", ".") gives the decimal-point text, float() of that is the number, float() of the comma
    text raises ValueError (the contract of the C-level conversion; the characters themselves are not modelled)"""
    _sx_symbolic = True

    def __init__(self, value, comma=True):
        self.value, self.comma = value, comma

    def __sx_type__(self):
        return str

    def replace(self, a, b, count=-1):
        if (a, b) == (",", "."):
            return NumeralCell(self.value, False)
        from sx.engine import SxUnsupported
        raise SxUnsupported("NumeralCell.replace(%r, %r)" % (a, b))

    def __sx_float__(self):
        if self.comma:
            raise ValueError("could not convert string to float")
        return self.value

    def __repr__(self):
        return "<numeral %r>" % (self.value,)


def _cell(eng, v, as_text: bool):
    if not as_text:
        return v
    if eng.symbolic:
        return NumeralCell(v)
    return repr(float(v)).replace(".", ",")


def _with_fake_df(fn):
    import pandas
    saved = pandas.DataFrame
    pandas.DataFrame = FakeDF
    try:
        return fn()
    finally:
        pandas.DataFrame = saved


def _case(eng, text: str, tag: str) -> str:
    k = eng.choice(3, tag + ".case")
    return text if k == 0 else (text.upper() if k == 1 else text.title())


def _pts(d):
    return list(d.get_frequencies(masked=None).flat), list(d.get_impedances(masked=None).flat)


def check_sets(eng, sets, sweeps, tag):
    """sweeps: list of lists of (f, Z) as written, each strictly monotonic"""
    eng.check(len(sets) == len(sweeps), tag + ":one data set per sweep", lambda: "%d data sets for %d sweeps" % (len(sets), len(sweeps)))
    if len(sets) != len(sweeps):
        return
    for d, sw in zip(sets, sweeps):
        F, Z = _pts(d)
        eng.check(len(F) == len(sw), tag + ":every written point is returned")
        if len(F) != len(sw):
            continue
        asc = len(sw) > 1 and bool(sw[0][0] < sw[1][0])
        want = list(reversed(sw)) if asc else sw
        for (f, z), gf, gz in zip(want, F, Z):
            eng.check(same(gf, f), tag + ":frequencies as written")
            okz = same(gz, z) if eng.symbolic else (abs(gz - z) <= 1e-9 * max(1.0, abs(z)))
            eng.check(okz, tag + ":impedances as written, with the documented sign", lambda: "%r vs %r" % (gz, z))


# --------------------------------------------------------------------------- header detection
def make_detect_harness(quantity: str, polar: bool):
    """one column's header varies over every alias x sign marker x case x suffix, the others are canonical; every column order"""
    def harness(eng):
        import pyimpspec.data.data_set as ds
        cols = ["frequency"] + (["magnitude", "phase"] if polar else ["real", "imaginary"])
        if quantity not in cols:
            raise PathAbort("quantity not in this layout")
        order = list(itertools.permutations(range(3)))[eng.choice(6, "order")]
        alias = ALIASES[quantity][eng.choice(len(ALIASES[quantity]), "alias")]
        suffix = SUFFIXES[eng.choice(len(SUFFIXES), "suffix")]
        neg = quantity in ("real", "imaginary", "phase") and eng.choice(3, "sign")
        sign = ("", "-", "−")[neg] if neg else ""
        headers = {}
        for q in cols:
            headers[q] = (sign + _case(eng, alias, "alias") + suffix) if q == quantity else CANON[q]
        vals = {q: eng.real("v." + q) for q in cols}
        layout = [cols[i] for i in order]
        df = FakeDF(columns=[headers[q] for q in layout], rows=[[vals[q] for q in layout]] * 1)
        ok, res = call(ds._detect_columns, df)
        eng.check(ok, "detect:documented headers are recognised", lambda: "%r -> %r" % (df.columns, res))
        if not ok:
            return
        idx, negs = res
        for q in cols:
            eng.check(idx.get(q) == layout.index(q), "detect:each quantity is found in its column", lambda: "%r: %r" % (df.columns, idx))
            eng.check(bool(negs.get(q)) == (q == quantity and bool(neg)), "detect:the sign marker is recognised", lambda: "%r: %r" % (df.columns, negs))
        eng.reached("detect")
    return harness


# --------------------------------------------------------------------------- values and sweeps
def gen_sweeps(eng, max_sweeps: int, max_len: int):
    """k consecutive sweeps, all ascending or all descending, boundaries where the direction breaks"""
    k = 1 + eng.choice(max_sweeps, "sweeps")
    asc = eng.choice(2, "ascending") == 1
    sweeps = []
    prev = None
    for s in range(k):
        n = (1 if (k == 1) else 2) + eng.choice(max_len - (0 if k == 1 else 1), "len%d" % s)
        pts = []
        for i in range(n):
            f = eng.real("f%d_%d" % (s, i))
            z = eng.complex("Z%d_%d" % (s, i), npy=False)
            eng.assume(f > 0)
            if i:
                eng.assume(pts[-1][0] < f if asc else pts[-1][0] > f)
            elif prev is not None:
                eng.assume(prev > f if asc else prev < f)      # a new sweep starts where the direction breaks
            pts.append((f, z))
        prev = pts[-1][0]
        sweeps.append(pts)
    return sweeps


def make_table_harness(polar: bool, max_sweeps: int, max_len: int):
    def harness(eng):
        import cmath
        import pyimpspec.data.data_set as ds
        from sx.values import uf, SVal
        from sx import symnp
        eng.div_zero_policy = "assume"
        sweeps = gen_sweeps(eng, max_sweeps, max_len)
        neg_im = eng.choice(2, "negative_imaginary") == 1
        degrees = eng.choice(2, "degrees") == 1 if polar else True
        rows = []
        rect_table = []
        for sw in sweeps:
            for f, z in sw:
                if polar and not eng.symbolic:
                    import math
                    mag = abs(z)
                    phi = math.degrees(cmath.phase(z)) if degrees else cmath.phase(z)
                    rows.append([f, mag, (-phi if neg_im else phi)])
                elif polar:
                    mag = eng.real("mag%d" % len(rows))
                    phi = eng.real("phi%d" % len(rows))
                    rect_table.append((mag, phi, z))
                    rows.append([f, mag, (-phi if neg_im else phi)])
                else:
                    rows.append([f, z.real, (-z.imag if neg_im else z.imag)])
        if polar:
            headers = ["Frequency (Hz)", "|Z| (ohm)", ("-" if neg_im else "") + "Phase (deg)"]
        else:
            headers = ["f (Hz)", "Z' (ohm)", ("-" if neg_im else "") + "Z'' (ohm)"]
        text = (set(), {0, 1, 2}, {1}, {2})[eng.choice(4, "text_columns")]
        rows = [[_cell(eng, v, j in text) for j, v in enumerate(r)] for r in rows]
        df = FakeDF(columns=headers, rows=rows)

        def rect(mag, phi):
            # cmath.rect(|z|, arg z) = z: the writer produced (mag, phi) from z
            if not (is_symbolic(mag) or is_symbolic(phi)):
                return cmath.rect(mag, phi)
            for m, p, z in rect_table:
                pp = (p * symnp.pi_val() / 180) if (degrees and eng.symbolic) else p
                if eng.implied(same(mag, m), light=False) and eng.implied(same(phi, pp), light=False):
                    return z
            # the code converts (modulus, phase) pairs other than the ones written: a sign, unit or column mix-up
            eng.fail("table:the modulus and phase written reach the polar-to-cartesian conversion unchanged", "rect(%r, %r)" % (mag, phi))
            raise PathAbort("rect() on values the writer did not produce")

        class CM:
            pass
        fake = CM()
        fake.rect = rect
        saved = ds.cmath
        ds.cmath = fake
        try:
            ok, res = call(lambda: _with_fake_df(lambda: ds.dataframe_to_data_sets(df, path="t.csv", label="t", degrees=degrees)))
        finally:
            ds.cmath = saved
        eng.check(ok, "table:a written table is parsed", lambda: "%d rows -> %s: %s" % (len(rows), type(res).__name__, res))
        if ok:
            check_sets(eng, res, sweeps, "table")
        eng.reached("table")
    return harness


def make_emitter_harness(n: int):
    """DataSet.to_dataframe (the table the CLI prints) parsed back by dataframe_to_data_sets"""
    def harness(eng):
        import pyimpspec.data.data_set as ds
        eng.div_zero_policy = "assume"
        pts = []
        for i in range(n):
            f = eng.real("f%d" % i)
            z = eng.complex("Z%d" % i, npy=False)
            eng.assume(f > 0)
            if i:
                eng.assume(pts[-1][0] > f)
            eng.assume(z != 0)
            pts.append((f, z))
        d = ds.DataSet([p[0] for p in pts], [p[1] for p in pts], label="d")
        neg = eng.choice(2, "negative_imaginary") == 1
        cols = ["f (Hz)", "Re(Z) (ohm)", ("-" if neg else "") + "Im(Z) (ohm)", "Mod(Z) (ohm)", "Phase(Z) (deg.)"]
        table = _with_fake_df(lambda: d.to_dataframe(masked=None, columns=cols, negative_imaginary=neg))
        ok, res = call(lambda: _with_fake_df(lambda: ds.dataframe_to_data_sets(table, path="t.csv", label="t")))
        eng.check(ok, "emitter:the emitted table is parsed", lambda: "%r" % (res,))
        if ok:
            check_sets(eng, res, [pts], "emitter")
        eng.reached("emitter")
    return harness


# --------------------------------------------------------------------------- instrument text layouts (.i2b .P00 .dfr .dta)
class _Sentinels:
    """printed numbers are not modelled digit by digit: every number is written as a distinct sentinel numeral (exactly representable, so the
    C-level float() returns it bit for bit), the real line parser runs on the file, and where its numbers enter the table each sentinel
    (or its negation) is replaced by the symbolic real it stands for.  A number that was never written is a violation."""

    def __init__(self, eng):
        self.eng, self.table = eng, {}

    def text(self, value, style: int, comma: bool) -> str:
        if self.eng.symbolic:
            x = 1024.0 + 0.25 * (len(self.table) + 1)
            self.table[x] = value
        else:
            x = float(value)
        t = (repr(x), "%.10e" % x, "%.10E" % x)[style] if self.eng.symbolic else repr(x)
        return t.replace(".", ",") if comma else t

    def back(self, x):
        if not self.eng.symbolic:
            return x
        if isinstance(x, float) and x in self.table:
            return self.table[x]
        if isinstance(x, float) and -x in self.table:
            return -self.table[-x]
        self.eng.fail("layout:only numbers that were written reach the table", "%r" % (x,))
        raise PathAbort("a number that was not written")


def _layout_lines(fmt, pts, num, extra):
    """the documented layouts, after the sample files of the repository (tests/data.*); `num(v)` prints a number, `extra()` a filler number"""
    n = len(pts)
    if fmt == "i2b":
        # four lines of free metadata, an empty line, the number of points, then 'f re im' separated by single blanks
        return ["Some metadata", "can be stored", "here in the first", "few lines", "", str(n)] + [
            "%s %s %s" % (num(f), num(z.real), num(z.imag)) for f, z in pts]
    if fmt == "p00":
        # free header, the column header starting with f/Hz, the number of points, rows of six tab-separated columns; -Z'' is stored
        return ["1-Header", "2-Date", "3-Description", "4-t =  736.4 s", " f/Hz       \t Z'/Ohm     \t -Z''/Ohm   \t time/s    \t Edc/V     \t Idc/A     \t", " %d " % n] + [
            " %s\t %s\t %s\t %s\t %s\t %s\t" % (num(f), num(z.real), num(-z.imag), extra(), extra(), extra()) for f, z in pts]
    if fmt == "dfr":
        # VERSIONx.y, the number of points, one more line, then nine lines per point: f, Z', -Z'', six others
        out = ["VERSION8.0", " %d" % n, " 1"]
        for f, z in pts:
            out += [" " + num(f), " " + num(z.real), " " + num(-z.imag)] + [" " + extra() for _ in range(6)]
        return out
    if fmt in ("dta", "dta.drift"):
        drift = fmt == "dta.drift"
        out = ["EXPLAIN", "TAG\tEISPOT", "DRIFTCOR\tSELECTOR\t%d\t&Drift Correction" % (1 if drift else 0), "FRAMEWORKVERSION\tLABEL\t7.9.0\tFramework Version", "ZCURVE\tTABLE"]
        if drift:
            out += ["\tPt\tTime\tFreq\tZreal\tZimag\tZsig\tZmod\tZphz\tZrealDrCor\tZimagDrCor\tIdc\tVdc\tIERange", "\t#\ts\tHz\tohm\tohm\tV\tohm\t°\tohm\tohm\tA\tV\t#"]
        else:
            out += ["\tPt\tTime\tFreq\tZreal\tZimag\tZsig\tZmod\tZphz\tIdc\tVdc\tIERange", "\t#\ts\tHz\tohm\tohm\tV\tohm\t°\tA\tV\t#"]
        for i, pt in enumerate(pts):
            f, z = pt[0], pt[1]
            if drift:
                zc = pt[2]
                row = [str(i), extra(), num(f), num(z.real), num(z.imag), extra(), extra(), extra(), num(zc.real), num(zc.imag), extra(), extra(), "8"]
            else:
                row = [str(i), extra(), num(f), num(z.real), num(z.imag), extra(), extra(), extra(), extra(), extra(), "8"]
            out.append("\t" + "\t".join(row))
        return out
    raise KeyError(fmt)


def make_layout_harness(fmt: str, max_len: int):
    def harness(eng):
        import os, shutil, tempfile
        import pyimpspec.data.data_set as ds
        import pyimpspec.data.formats as formats
        import pandas
        eng.div_zero_policy = "assume"
        sweep = gen_sweeps(eng, 1, max_len)[0]
        drift = fmt == "dta.drift"
        if drift:
            sweep = [(f, z, eng.complex("Zc%d" % i, npy=False)) for i, (f, z) in enumerate(sweep)]
        comma = eng.choice(2, "decimal_comma") == 1 and fmt != "i2b"
        style = eng.choice(3, "numeral_style") if eng.symbolic else 0
        sen = _Sentinels(eng)
        filler = [0]

        def extra():
            filler[0] += 1
            t = repr(7.0 + 0.125 * filler[0])          # filler columns: numbers that must never reach the table
            return t.replace(".", ",") if comma else t
        lines = _layout_lines(fmt, sweep, lambda v: sen.text(v, style, comma), extra)
        trailing = eng.choice(2, "trailing_blank_line")
        # every one of these parsers drops empty lines before it looks at anything, so empty lines carry no meaning in the layouts:
        # as in the sample file / none at all / additional ones after the first line and before the last line
        blanks = eng.choice(3, "empty_lines")
        if blanks == 1:
            lines = [l for l in lines if l.strip() != ""]
        elif blanks == 2:
            lines = lines[:1] + [""] + lines[1:-1] + ["", lines[-1]]

        class LayoutDF(FakeDF):
            @classmethod
            def from_dict(cls, data):
                return cls({k: [sen.back(x) for x in v] for k, v in data.items()})

        tmp = tempfile.mkdtemp(prefix="c06_")
        path = os.path.join(tmp, "spectrum." + {"i2b": "i2b", "p00": "P00", "dfr": "dfr", "dta": "dta", "dta.drift": "dta"}[fmt])
        saved = pandas.DataFrame
        try:
            with open(path, "w", encoding="latin1") as fp:
                fp.write("\n".join(lines) + ("\n\n" if trailing else "\n"))
            parser = {"i2b": formats.parse_i2b, "p00": formats.parse_p00, "dfr": formats.parse_dfr, "dta": formats.parse_dta, "dta.drift": formats.parse_dta}[fmt]
            pandas.DataFrame = LayoutDF
            ok, res = call(parser, path)
        finally:
            pandas.DataFrame = saved
            shutil.rmtree(tmp, ignore_errors=True)
        eng.check(ok, "layout:a file in the documented layout is parsed", lambda: "%s: %s" % (type(res).__name__, res))
        if ok and drift:
            eng.check(len(res) == 2, "layout:drift-corrected and uncorrected spectra are both returned")
            if len(res) == 2:
                check_sets(eng, res[:1], [[(f, zc) for f, z, zc in sweep]], "layout")
                check_sets(eng, res[1:], [[(f, z) for f, z, zc in sweep]], "layout")
        elif ok:
            check_sets(eng, res, [sweep], "layout")
        eng.reached("layout")
    return harness


def obligations(tier: str):
    from sx.runner import Obligation
    import pyimpspec.data.data_set as ds
    funcs = [ds._detect_columns, ds._extract_data, ds._split_sweeps, ds.dataframe_to_data_sets, ds.DataSet.to_dataframe]
    stubs = ["pandas.DataFrame is a stand-in holding column names and rows", "cmath.rect(|z|, arg z) = z for the (modulus, phase) pairs the writer produced; "
             "degrees -> radians is the linear map x*pi/180"]
    obs = []
    for polar in (False, True):
        for q in (["frequency", "magnitude", "phase"] if polar else ["frequency", "real", "imaginary"]):
            obs.append(Obligation("detect.%s.%s" % ("polar" if polar else "cartesian", q), make_detect_harness(q, polar),
                                  bounds="%s layout; the %s header = [-|−] alias (%d aliases) x 3 letter cases x %d suffixes, other headers canonical; all 6 column orders"
                                         % ("polar" if polar else "cartesian", q, len(ALIASES[q]), len(SUFFIXES)), functions=funcs, stubs=stubs,
                                  expect_reach=["detect"], max_paths=1000000))
        ms, ml = (2, 2) if tier == "quick" else (3, 3)
        obs.append(Obligation("table.%s" % ("polar" if polar else "cartesian"), make_table_harness(polar, ms, ml),
                              bounds="1..%d consecutive sweeps of up to %d points (a single sweep may have 1 point), ascending or descending, all values symbolic; "
                                     "sign-inverted imaginary/phase column; no / all / only the second / only the third column as decimal-comma text; %s" % (ms, ml + 1, "degrees or radians" if polar else "cartesian"),
                              functions=funcs, stubs=stubs, expect_reach=["table"], max_paths=1000000, mode="fresh" if polar else "incremental"))
    obs.append(Obligation("emitter", make_emitter_harness(2 if tier == "quick" else 3), bounds="to_dataframe of %d symbolic points -> dataframe_to_data_sets" % (2 if tier == "quick" else 3),
                          functions=funcs, stubs=stubs, expect_reach=["emitter"], mode="fresh"))
    import pyimpspec.data.formats.i2b as f_i2b, pyimpspec.data.formats.p00 as f_p00, pyimpspec.data.formats.dfr as f_dfr, pyimpspec.data.formats.dta as f_dta
    import pyimpspec.data.formats.helpers as f_h
    for fmt, fn in (("i2b", f_i2b.parse_i2b), ("p00", f_p00.parse_p00), ("dfr", f_dfr.parse_dfr), ("dta", f_dta.parse_dta), ("dta.drift", f_dta.parse_dta)):
        ml = 2 if tier == "quick" else 3
        obs.append(Obligation("layout." + fmt, make_layout_harness(fmt, ml),
                              bounds="one sweep of 1..%d points, ascending or descending, all values symbolic; decimal point or decimal comma (not .i2b), three numeral "
                                     "styles (plain, e-notation, E-notation), with or without a trailing empty line, empty lines as in the sample / none / additional ones; layout after the repository's sample file" % (ml + 1),
                              functions=[fn, f_h._parse_string_as_float, ds.dataframe_to_data_sets, ds._detect_columns, ds._extract_data, ds._split_sweeps],
                              stubs=stubs[:1] + ["sentinel numerals: each number is printed as a distinct exactly-representable numeral, the real line parser reads the real "
                                                 "file, and where its lists enter the table each sentinel (or its negation) becomes the symbolic real it stands for"],
                              expect_reach=["layout", "layout:impedances as written, with the documented sign"], max_paths=1000000))
    for o in obs:
        o.replay = o.harness
    return obs


EXPLANATION = (
    "Table-level round trip decided with z3 on the real column detection, value extraction, sweep splitting and table emitter: cell values and sweep "
    "frequencies are solver variables, header spellings / column orders / sign markers / units are enumerated by solver-driven choices."
)
ASSUMPTIONS = ["headers are a documented alias plus a unit suffix from a fixed list (the documented detection contract is prefix matching)",
               "text cells are decimal-comma numerals: float(text.replace(',', '.')) is the number written (contract of the C-level conversion)", "a sweep of a multi-sweep file has at least two points"]
OUTSIDE = ["the text layer: pandas.read_csv/to_csv, separator sniffing, decimal commas", "the instrument layouts .mpt and .z (pandas.read_csv); for .i2b .P00 .dfr .dta the digits of a numeral (sentinel numerals stand for the numbers) and layouts other than the sample files\'",
           "the table printed by the CLI 'parse' command (format_text)"]


def replay(obligation: str, witness):
    from sx.concrete import run_concrete
    for tier in replay_tiers():
        for ob in obligations(tier):
            if ob.name == obligation:
                reproduced, msg, _ = run_concrete(ob.harness, witness)
                if not reproduced and obligation.startswith("table.polar"):
                    # under the engine modulus and phase are variables of their own; the replay derives them from Z, and a model with
                    # Z = 0 or Im Z = 0 hides a sign or column mix-up: retry with generic impedances on the same path
                    w2 = dict(witness)
                    for k, v in witness.items():
                        if k.endswith(".re") or k.endswith(".im"):
                            w2[k] = (3 + len(k) % 5) * (-1 if k.endswith(".im") else 1) / 2
                    reproduced, msg, _ = run_concrete(ob.harness, w2)
                    if reproduced:
                        msg += " (witness with generic impedances)"
                return reproduced, msg
    raise KeyError(obligation)
