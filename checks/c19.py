"""C19 -- the command-line interface reports what the API computes (PARTIAL: the glue code that is pure Python).

Decided with z3 on the real CLI glue with symbolic inputs:
  * mock-data specifiers: `<ID:key=value,...>` -- the real `_parse_identity`, `get_mock_data`, `get_mock_circuits`
    and `parse_inputs` on specifier texts built from symbolic characters (identifier, label characters inside
    braces incl. colons, value numerals): the call that reaches `generate_mock_data` / `generate_mock_circuits`
    carries exactly the identifier and the keyword arguments written in the specifier (float / int conversion
    of the value text), or the specifier is refused with ValueError / KeyError when a value is not a numeral /
    a key is not documented;
  * `parse`: the real `cli.parse.command` + `apply_filters` on a symbolic spectrum with symbolic low-/high-pass
    cut-offs and an explored set of excluded indices: the table handed to the text formatter holds exactly the
    points that the API sequence low_pass / high_pass / set_mask leaves unmasked, with the API's numbers, and a
    selection that leaves nothing is refused.
Text formatting (pandas to_csv / to_markdown / to_json), argparse, files, matplotlib, `circuit --simulate`,
`fit`, `drt`, `test`, `zhit` commands are outside.
"""
from __future__ import annotations

from argparse import Namespace
from typing import Any, Dict, List

from .common import call, same, is_symbolic, PathAbort, replay_tiers
from .c06 import FakeDF, _with_fake_df

PROP = "C19"

KEYS = {"noise": float, "num_per_decade": int, "log_max_f": float, "log_min_f": float, "seed": int, "drift": float}


def _chars(eng, tag, n, forbidden):
    from sx.strs import schar
    out = []
    for i in range(n):
        if eng.symbolic:
            c = schar("%s%d" % (tag, i), ascii_only=True)
            for ch in forbidden:
                eng.assume(c != ch)
            out.append(c)
        else:
            out.append(chr(eng.integer("%s%d" % (tag, i))))
    return out


def _text(eng, parts):
    """concatenate str / SChar parts: SStr under the engine, str in replays"""
    if eng.symbolic:
        from sx.strs import SStr
        items = []
        for p in parts:
            items.extend(list(p) if isinstance(p, str) else [p])
        return SStr(items)
    return "".join(parts)


# --------------------------------------------------------------------------- mock specifiers
CONCRETE_VALUES = {float: ["0.5", "-2", "1e-3", "x"], int: ["7", "-1", "2.5"]}


def make_identity_harness(max_kwargs: int, val_len: int, route: str, concrete_values: bool = False):
    def harness(eng):
        import pyimpspec.cli.utility as cu
        import pyimpspec.mock_data as md
        # identifier: (a) bracket-free text without ':' (mock identifiers, wildcards); (b) a circuit description code whose braces
        # may hold anything, colons included, followed by a bracket-free tail without ':'
        form = eng.choice(3, "id.form") if route != "inputs" else 0     # (parse_inputs hashes its paths: concrete text only)
        if form == 0:
            ident = ["CIRCUIT_1"]
        elif form == 1:
            ident = _chars(eng, "id", 1 + eng.choice(2, "id.len"), ":{}[]()")
        else:
            ident = ["R{"] + _chars(eng, "lbl", 2, "{}[]()") + ["}"] + _chars(eng, "tail", eng.choice(2, "tail.len"), ":{}[]()")
        k = eng.choice(max_kwargs + 1, "kwargs")
        parts = list(ident)
        expected: List[Any] = []
        names = sorted(KEYS)
        for j in range(k):
            key = names[eng.choice(len(names), "key%d" % j)]
            if concrete_values:
                cv = CONCRETE_VALUES[KEYS[key]]
                val = [cv[eng.choice(len(cv), "v%d.index" % j)]]
            else:
                val = _chars(eng, "v%d_" % j, 1 + eng.choice(val_len, "v%d.len" % j), ":,={}[]()_infatyINFATY \t\n\r\x0b\x0c\x1c\x1d\x1e\x1f")
            pre = ("", " ")[eng.choice(2, "blank%d" % j)]
            parts += [":" if j == 0 else ","] + [pre, key, "="] + val + [pre]
            expected.append((key, _text(eng, val)))
        if k == 0 and eng.choice(2, "undocumented"):
            parts += [":", "nois=1"]
            expected = "KeyError"
        spec = _text(eng, parts)
        ident_text = _text(eng, ident)
        seen = []

        def capture(identifier, **kwargs):
            seen.append((identifier, kwargs))
            return []
        saved = (md.generate_mock_data, md.generate_mock_circuits)
        md.generate_mock_data = md.generate_mock_circuits = capture
        try:
            if route == "data":
                ok, res = call(cu.get_mock_data, spec)
            elif route == "circuits":
                ok, res = call(cu.get_mock_circuits, spec)
            else:
                ns = Namespace(input=[_text(eng, ["<"] + parts + [">"])], nth_data_set=[])
                ok, res = call(cu.parse_inputs, ns)
        finally:
            md.generate_mock_data, md.generate_mock_circuits = saved
        if expected == "KeyError":
            eng.check((not ok) and isinstance(res, KeyError) and not seen, "identity:an undocumented keyword is refused with KeyError", lambda: "%r" % (res,))
            eng.reached("identity")
            return
        # what the specifier says, by construction
        want: Dict[str, Any] = {}
        bad = False
        for key, text in expected:
            conv = KEYS[key]
            try:
                want[key] = _convert(eng, conv, text)
            except ValueError:
                bad = True
                break
        if bad:
            eng.check((not ok) and isinstance(res, ValueError) and not seen, "identity:a value that is not a numeral of the keyword's type is refused with ValueError",
                      lambda: "%r -> %r" % (spec, res))
            eng.reached("identity")
            return
        eng.check(ok, "identity:a well-formed specifier is accepted", lambda: "%r -> %r" % (spec, res))
        if not ok:
            return
        # (parse_inputs validates a specifier by generating the data once before it generates them for use)
        calls = 2 if route == "inputs" else 1
        eng.check(len(seen) == calls, "identity:the generator is called with one set of arguments", lambda: "%d calls" % len(seen))
        if len(seen) != calls:
            return
        got_id, got_kw = seen[-1]
        if calls == 2:
            a, b = seen
            eng.check(bool(same(a[0], b[0])) and sorted(map(str, a[1])) == sorted(map(str, b[1])) and all(bool(same(a[1][k], b[1][k])) for k in a[1]),
                      "identity:validation and use see the same arguments")
        eng.check(bool(same(got_id, ident_text)) if is_symbolic(got_id) or is_symbolic(ident_text) else got_id == ident_text,
                  "identity:the identifier reaches the generator unchanged", lambda: "%r vs %r" % (got_id, ident_text))
        eng.check(sorted(str(x) for x in got_kw) == sorted(want), "identity:exactly the written keywords reach the generator", lambda: "%r vs %r" % (sorted(map(str, got_kw)), sorted(want)))
        for key in want:
            g = [v for kk, v in got_kw.items() if str(kk) == key]
            if len(g) == 1:
                eng.check(bool(same(g[0], want[key])), "identity:each keyword carries the number written in the specifier", lambda: "%s: %r vs %r" % (key, g[0], want[key]))
        eng.reached("identity")
    return harness


def _convert(eng, conv, text):
    if eng.symbolic:
        from sx.shims import sx_float, sx_int
        return (sx_float if conv is float else sx_int)(text)
    return conv(text)


# --------------------------------------------------------------------------- parse
def make_parse_harness(n: int, two_sets: bool):
    def harness(eng):
        import pyimpspec.cli.parse as cp
        from pyimpspec.data.data_set import DataSet
        sets, pts_all = [], []
        for s in range(2 if two_sets else 1):
            pts = []
            for i in range(n):
                f = eng.real("f%d_%d" % (s, i))
                z = eng.complex("Z%d_%d" % (s, i), npy=False)
                eng.assume(f > 0)
                if i:
                    eng.assume(pts[-1][0] > f)
                pts.append((f, z))
            sets.append(DataSet([p[0] for p in pts], [p[1] for p in pts], label="set%d" % s, path="p"))
            pts_all.append(pts)
        lp = eng.real("low_pass_cutoff")
        hp = eng.real("high_pass_cutoff")
        excl = [i for i in range(n + 1) if eng.choice(2, "exclude%d" % i)]       # index n is out of range and must be ignored
        args = Namespace(low_pass_cutoff=lp, high_pass_cutoff=hp, exclude_indices=excl, average_data_sets=False, output=False,
                         output_format="csv", output_indices=False, output_significant_digits=6, input=["p"], nth_data_set=[])
        frames, printed = [], []

        def fmt(df, a):
            frames.append(df)
            return "TABLE%d\n" % len(frames)
        saved = (cp.parse_inputs, cp.format_text)
        cp.parse_inputs = lambda a: {"p": list(sets)}
        cp.format_text = fmt
        try:
            ok, res = call(lambda: _with_fake_df(lambda: cp.command(None, args, print_func=printed.append)))
        finally:
            cp.parse_inputs, cp.format_text = saved
        # what the API sequence leaves: documented semantics of low_pass / high_pass / set_mask, stated over the symbolic values
        keep_all = []
        for pts in pts_all:
            after_filters = [(not (bool(lp > 0) and bool(f > lp))) and (not (bool(hp > 0) and bool(f < hp))) for f, z in pts]
            keep = [a and (i not in excl) for i, a in enumerate(after_filters)]
            keep_all.append((after_filters, keep))
        # the command stops at the first data set that is left empty
        refuse = None
        for s, (af, keep) in enumerate(keep_all):
            if not any(af) or not any(keep):
                refuse = s
                break
        if refuse is not None:
            eng.check((not ok) and isinstance(res, ValueError), "parse:a selection that leaves no point is refused", lambda: "%r" % (res,))
            eng.reached("parse")
            return
        eng.check(ok, "parse:completes", lambda: "%r" % (res,))
        if not ok:
            return
        eng.check(len(frames) == len(sets), "parse:one table per data set")
        if len(frames) != len(sets):
            return
        for s, df in enumerate(frames):
            want = [p for p, k in zip(pts_all[s], keep_all[s][1]) if k]
            eng.check(len(df.values) == len(want), "parse:the table holds exactly the points left unmasked by the filters and exclusions",
                      lambda: "%d rows for %d points" % (len(df.values), len(want)))
            if len(df.values) != len(want):
                continue
            for row, (f, z) in zip(df.values, want):
                eng.check(bool(same(row[0], f)) and bool(same(row[1], z.real)) and bool(same(row[2], z.imag)),
                          "parse:the table carries the API's numbers (frequency, real and imaginary part)", lambda: "%r vs %r" % (row[:3], (f, z)))
            eng.check("TABLE%d" % (s + 1) in printed, "parse:every table is printed", lambda: "%r" % (printed,))
        eng.reached("parse")
    return harness


def obligations(tier: str):
    from sx.runner import Obligation
    import pyimpspec.cli.utility as cu
    import pyimpspec.cli.parse as cp
    import pyimpspec.data.data_set as ds
    obs = []
    mk, vl = (1, 2) if tier == "quick" else (1, 3)
    stubs = ["generate_mock_data / generate_mock_circuits are replaced by a recorder (what reaches them is the subject)",
             "float(text) / int(text): Python's numeral syntax decided exactly on the symbolic characters; the value is an uninterpreted number, the same for the same characters",
             "parse: parse_inputs returns the symbolic data set(s); format_text records the table it is handed; pandas.DataFrame is a stand-in holding columns and rows"]
    for route in ("data", "circuits", "inputs"):
        obs.append(Obligation("identity.%s" % route, make_identity_harness(mk if route != "inputs" else 2, vl, route, concrete_values=(route == "inputs")),
                              bounds="specifier = identifier (CIRCUIT_1 | 1-2 symbolic bracket-free characters | R{2 symbolic characters}+0-1 symbolic characters) + 0..%d keyword arguments out of the 6 "
                                     "documented ones, each value 1..%d symbolic ASCII characters, optional blanks around an argument; route %s%s" % (
                                         mk, vl, route, " (concrete identifier and values from a list: parse_inputs hashes its paths)" if route == "inputs" else ""),
                              functions=[cu._parse_identity, cu.get_mock_data, cu.get_mock_circuits, cu.parse_inputs], stubs=stubs, expect_reach=["identity"], max_paths=2000000))
    obs.append(Obligation("identity.two", make_identity_harness(2, 1, "data", concrete_values=True),
                          bounds="as identity.data with 0..2 keyword arguments whose values are taken from a list of numerals and non-numerals (%r)" % (CONCRETE_VALUES,),
                          functions=[cu._parse_identity, cu.get_mock_data], stubs=stubs, expect_reach=["identity"], max_paths=2000000))
    for two in (False, True):
        n = (2 if two else 3) if tier == "quick" else (3 if two else 4)
        obs.append(Obligation("parse.%d" % (2 if two else 1), make_parse_harness(n, two),
                              bounds="cli parse command on %d data set(s) of %d symbolic points, symbolic low-/high-pass cut-offs (any sign), every subset of excluded indices incl. one out of range"
                                     % (2 if two else 1, n), functions=[cp.command, cu.apply_filters, ds.DataSet.low_pass, ds.DataSet.high_pass, ds.DataSet.set_mask, ds.DataSet.to_dataframe],
                              stubs=stubs, expect_reach=["parse"], max_paths=2000000))
    for o in obs:
        o.replay = o.harness
    return obs


EXPLANATION = (
    "Bounded symbolic execution with z3 of the real command-line glue code: the characters of a mock-data specifier, the numbers of a spectrum and the "
    "filter cut-offs are solver variables; z3 decides whether the call that reaches the API can carry anything but what the specifier says, and whether "
    "the table handed to the formatter can differ from what the API sequence of filters and exclusions leaves."
)
ASSUMPTIONS = ["identifiers contain ':' only inside brackets (mock identifiers have none; in a circuit description code a colon only occurs inside braces)",
               "value texts contain no white space, none of ':' ',' '=' '_', no brackets and none of the letters of inf / nan / infinity (those spellings are outside)", "floats as reals; numerals as uninterpreted numbers"]
OUTSIDE = ["text formatting of numbers (pandas to_csv / to_markdown / to_json / to_latex)", "argparse, configuration files, output files", "the commands circuit --simulate, fit, drt, test, zhit, plot "
           "(matplotlib and the numerical pipelines)", "--average-data-sets", "that generate_mock_data itself is deterministic (C17)"]


def replay(obligation: str, witness):
    from sx.concrete import run_concrete
    for tier in replay_tiers():
        for ob in obligations(tier):
            if ob.name == obligation:
                reproduced, msg, _ = run_concrete(ob.harness, witness)
                return reproduced, msg
    raise KeyError(obligation)
