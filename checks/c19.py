"""C19 -- the command-line interface reports what the API computes (PARTIAL: the glue code that is pure Python).

Decided with z3 on the real CLI glue with symbolic inputs:
  * mock-data specifiers: `<ID:key=value,...>` -- the real `_parse_identity`, `get_mock_data`, `get_mock_circuits`
    and `parse_inputs` on specifier texts built from symbolic characters (identifier, label characters inside
    braces incl. colons, value numerals): the call that reaches `generate_mock_data` / `generate_mock_circuits`
    carries exactly the identifier and the keyword arguments written in the specifier (float / int conversion
    of the value text), or the specifier is refused with ValueError / KeyError when a value is not a numeral /
    a key is not documented;
  * `parse`: the real `cli.parse.command` + `apply_filters` on a symbolic spectrum with symbolic low-/high-pass
    cut-offs and an explored set of excluded indices: the table handed to the text formatter holds exactly the
    points that the API sequence low_pass / high_pass / set_mask leaves unmasked, with the API's numbers, and a
    selection that leaves nothing is refused.
Text formatting (pandas to_csv / to_markdown / to_json), argparse, files, matplotlib, `circuit --simulate`,
`fit`, `drt`, `test`, `zhit` commands are outside.
"""
from __future__ import annotations

from argparse import Namespace
from typing import Any, Dict, List

from .common import call, same, is_symbolic, PathAbort, replay_tiers, mk_array
from .c06 import FakeDF, _with_fake_df

PROP = "C19"

KEYS = {"noise": float, "num_per_decade": int, "log_max_f": float, "log_min_f": float, "seed": int, "drift": float}


def _chars(eng, tag, n, forbidden):
    from sx.strs import schar
    out = []
    for i in range(n):
        if eng.symbolic:
            c = schar("%s%d" % (tag, i), ascii_only=True)
            for ch in forbidden:
                eng.assume(c != ch)
            out.append(c)
        else:
            out.append(chr(eng.integer("%s%d" % (tag, i))))
    return out


def _text(eng, parts):
    """concatenate str / SChar parts: SStr under the engine, str in replays"""
    if eng.symbolic:
        from sx.strs import SStr
        items = []
        for p in parts:
            items.extend(list(p) if isinstance(p, str) else [p])
        return SStr(items)
    return "".join(parts)


# --------------------------------------------------------------------------- mock specifiers
CONCRETE_VALUES = {float: ["0.5", "-2", "1e-3", "x"], int: ["7", "-1", "2.5"]}


def make_identity_harness(max_kwargs: int, val_len: int, route: str, concrete_values: bool = False):
    def harness(eng):
        import pyimpspec.cli.utility as cu
        import pyimpspec.mock_data as md
        # identifier: (a) bracket-free text without ':' (mock identifiers, wildcards); (b) a circuit description code whose braces
        # may hold anything, colons included, followed by a bracket-free tail without ':'
        form = eng.choice(3, "id.form") if route != "inputs" else 0     # (parse_inputs hashes its paths: concrete text only)
        if form == 0:
            ident = ["CIRCUIT_1"]
        elif form == 1:
            ident = _chars(eng, "id", 1 + eng.choice(2, "id.len"), ":{}[]()")
        else:
            ident = ["R{"] + _chars(eng, "lbl", 2, "{}[]()") + ["}"] + _chars(eng, "tail", eng.choice(2, "tail.len"), ":{}[]()")
        k = eng.choice(max_kwargs + 1, "kwargs")
        parts = list(ident)
        expected: List[Any] = []
        names = sorted(KEYS)
        for j in range(k):
            key = names[eng.choice(len(names), "key%d" % j)]
            if concrete_values:
                cv = CONCRETE_VALUES[KEYS[key]]
                val = [cv[eng.choice(len(cv), "v%d.index" % j)]]
            else:
                val = _chars(eng, "v%d_" % j, 1 + eng.choice(val_len, "v%d.len" % j), ":,={}[]()_infatyINFATY \t\n\r\x0b\x0c\x1c\x1d\x1e\x1f")
            pre = ("", " ")[eng.choice(2, "blank%d" % j)]
            parts += [":" if j == 0 else ","] + [pre, key, "="] + val + [pre]
            expected.append((key, _text(eng, val)))
        if k == 0 and eng.choice(2, "undocumented"):
            parts += [":", "nois=1"]
            expected = "KeyError"
        spec = _text(eng, parts)
        ident_text = _text(eng, ident)
        seen = []

        def capture(identifier, **kwargs):
            seen.append((identifier, kwargs))
            return []
        saved = (md.generate_mock_data, md.generate_mock_circuits)
        md.generate_mock_data = md.generate_mock_circuits = capture
        try:
            if route == "data":
                ok, res = call(cu.get_mock_data, spec)
            elif route == "circuits":
                ok, res = call(cu.get_mock_circuits, spec)
            else:
                ns = Namespace(input=[_text(eng, ["<"] + parts + [">"])], nth_data_set=[])
                ok, res = call(cu.parse_inputs, ns)
        finally:
            md.generate_mock_data, md.generate_mock_circuits = saved
        if expected == "KeyError":
            eng.check((not ok) and isinstance(res, KeyError) and not seen, "identity:an undocumented keyword is refused with KeyError", lambda: "%r" % (res,))
            eng.reached("identity")
            return
        # what the specifier says, by construction
        want: Dict[str, Any] = {}
        bad = False
        for key, text in expected:
            conv = KEYS[key]
            try:
                want[key] = _convert(eng, conv, text)
            except ValueError:
                bad = True
                break
        if bad:
            eng.check((not ok) and isinstance(res, ValueError) and not seen, "identity:a value that is not a numeral of the keyword's type is refused with ValueError",
                      lambda: "%r -> %r" % (spec, res))
            eng.reached("identity")
            return
        eng.check(ok, "identity:a well-formed specifier is accepted", lambda: "%r -> %r" % (spec, res))
        if not ok:
            return
        # (parse_inputs validates a specifier by generating the data once before it generates them for use)
        calls = 2 if route == "inputs" else 1
        eng.check(len(seen) == calls, "identity:the generator is called with one set of arguments", lambda: "%d calls" % len(seen))
        if len(seen) != calls:
            return
        got_id, got_kw = seen[-1]
        if calls == 2:
            a, b = seen
            eng.check(bool(same(a[0], b[0])) and sorted(map(str, a[1])) == sorted(map(str, b[1])) and all(bool(same(a[1][k], b[1][k])) for k in a[1]),
                      "identity:validation and use see the same arguments")
        eng.check(bool(same(got_id, ident_text)) if is_symbolic(got_id) or is_symbolic(ident_text) else got_id == ident_text,
                  "identity:the identifier reaches the generator unchanged", lambda: "%r vs %r" % (got_id, ident_text))
        eng.check(sorted(str(x) for x in got_kw) == sorted(want), "identity:exactly the written keywords reach the generator", lambda: "%r vs %r" % (sorted(map(str, got_kw)), sorted(want)))
        for key in want:
            g = [v for kk, v in got_kw.items() if str(kk) == key]
            if len(g) == 1:
                eng.check(bool(same(g[0], want[key])), "identity:each keyword carries the number written in the specifier", lambda: "%s: %r vs %r" % (key, g[0], want[key]))
        eng.reached("identity")
    return harness


def _convert(eng, conv, text):
    if eng.symbolic:
        from sx.shims import sx_float, sx_int
        return (sx_float if conv is float else sx_int)(text)
    return conv(text)


# --------------------------------------------------------------------------- parse
def make_parse_harness(n: int, two_sets: bool):
    def harness(eng):
        import pyimpspec.cli.parse as cp
        from pyimpspec.data.data_set import DataSet
        sets, pts_all = [], []
        for s in range(2 if two_sets else 1):
            pts = []
            for i in range(n):
                f = eng.real("f%d_%d" % (s, i))
                z = eng.complex("Z%d_%d" % (s, i), npy=False)
                eng.assume(f > 0)
                if i:
                    eng.assume(pts[-1][0] > f)
                pts.append((f, z))
            sets.append(DataSet([p[0] for p in pts], [p[1] for p in pts], label="set%d" % s, path="p"))
            pts_all.append(pts)
        lp = eng.real("low_pass_cutoff")
        hp = eng.real("high_pass_cutoff")
        excl = [i for i in range(n + 1) if eng.choice(2, "exclude%d" % i)]       # index n is out of range and must be ignored
        args = Namespace(low_pass_cutoff=lp, high_pass_cutoff=hp, exclude_indices=excl, average_data_sets=False, output=False,
                         output_format="csv", output_indices=False, output_significant_digits=6, input=["p"], nth_data_set=[])
        frames, printed = [], []

        def fmt(df, a):
            frames.append(df)
            return "TABLE%d\n" % len(frames)
        saved = (cp.parse_inputs, cp.format_text)
        cp.parse_inputs = lambda a: {"p": list(sets)}
        cp.format_text = fmt
        try:
            ok, res = call(lambda: _with_fake_df(lambda: cp.command(None, args, print_func=printed.append)))
        finally:
            cp.parse_inputs, cp.format_text = saved
        # what the API sequence leaves: documented semantics of low_pass / high_pass / set_mask, stated over the symbolic values
        keep_all = []
        for pts in pts_all:
            after_filters = [(not (bool(lp > 0) and bool(f > lp))) and (not (bool(hp > 0) and bool(f < hp))) for f, z in pts]
            keep = [a and (i not in excl) for i, a in enumerate(after_filters)]
            keep_all.append((after_filters, keep))
        # the command stops at the first data set that is left empty
        refuse = None
        for s, (af, keep) in enumerate(keep_all):
            if not any(af) or not any(keep):
                refuse = s
                break
        if refuse is not None:
            eng.check((not ok) and isinstance(res, ValueError), "parse:a selection that leaves no point is refused", lambda: "%r" % (res,))
            eng.reached("parse")
            return
        eng.check(ok, "parse:completes", lambda: "%r" % (res,))
        if not ok:
            return
        eng.check(len(frames) == len(sets), "parse:one table per data set")
        if len(frames) != len(sets):
            return
        for s, df in enumerate(frames):
            want = [p for p, k in zip(pts_all[s], keep_all[s][1]) if k]
            eng.check(len(df.values) == len(want), "parse:the table holds exactly the points left unmasked by the filters and exclusions",
                      lambda: "%d rows for %d points" % (len(df.values), len(want)))
            if len(df.values) != len(want):
                continue
            for row, (f, z) in zip(df.values, want):
                eng.check(bool(same(row[0], f)) and bool(same(row[1], z.real)) and bool(same(row[2], z.imag)),
                          "parse:the table carries the API's numbers (frequency, real and imaginary part)", lambda: "%r vs %r" % (row[:3], (f, z)))
            eng.check("TABLE%d" % (s + 1) in printed, "parse:every table is printed", lambda: "%r" % (printed,))
        eng.reached("parse")
    return harness


# --------------------------------------------------------------------------- fit / drt commands: what reaches the API, what is printed
class _FakeFigure:
    def tight_layout(self, *a, **k):
        pass

    def suptitle(self, *a, **k):
        pass

    def savefig(self, *a, **k):
        pass


class _FakeAxis:
    def legend(self, *a, **k):
        pass


class _FakeMpl:
    """pyimpspec.mpl stand-in: every plot_* function returns a figure and axes"""

    def __getattr__(self, name):
        if name.startswith("plot_"):
            def plot(*a, **k):
                return (_FakeFigure(), [_FakeAxis(), _FakeAxis()])
            plot.__name__ = name
            self.__dict__[name] = plot
            return plot
        raise AttributeError(name)


class _FakePlt:
    def show(self, *a, **k):
        pass

    def close(self, *a, **k):
        pass


def _concrete_data(label="d"):
    from pyimpspec.data.data_set import DataSet
    return DataSet([100.0, 10.0, 1.0], [4 + 0j, 3 - 1j, 2 - 2j], label=label, path="p")


def make_fit_glue_harness():
    """cli fit: every call of fit_circuit -- the first one and each refinement -- carries the settings given on the command line, a
    refinement starts from the previous result's circuit, and the report is built from the last result"""
    def harness(eng):
        import pyimpspec
        import pyimpspec.cli.fit as cf
        from pyimpspec import parse_cdc
        max_nfev, num_procs, timeout = eng.integer("max_nfev"), eng.integer("num_procs"), eng.integer("timeout")
        refinements = eng.choice(3, "num_refinements")
        method = ("leastsq", "auto", ["leastsq", "nelder"])[eng.choice(3, "method")]
        weight = ("boukamp", "auto")[eng.choice(2, "weight")]
        plot_type = ("fit", "nyquist")[eng.choice(2, "plot_type")]
        args = Namespace(circuit="R(RC)", method=method, weight=weight, max_nfev=max_nfev, num_procs=num_procs, timeout=timeout, num_refinements=refinements,
                         plot_type=plot_type, plot_no_legend=False, plot_colored_axes=False, plot_admittance=False, plot_title=True, plot_width="10", plot_height="6",
                         plot_dpi=100, output=False, running_count=False, output_format="csv", output_indices=False, output_significant_digits=6,
                         low_pass_cutoff=0.0, high_pass_cutoff=0.0, exclude_indices=[], input=["p"], nth_data_set=[])
        calls, results, frames, printed = [], [], [], []

        class Result:
            def __init__(self, k):
                self.k = k
                self.circuit = parse_cdc("R(RC)")

            def get_label(self):
                return "fit%d" % self.k

            def to_parameters_dataframe(self, running=False):
                return ("parameters", self.k)

            def to_statistics_dataframe(self):
                return ("statistics", self.k)

        def fit_circuit(circuit, **kw):
            calls.append((circuit, kw))
            results.append(Result(len(results)))
            return results[-1]

        def fmt(df, a):
            frames.append(df)
            return "<%s %s>" % df
        saved = (pyimpspec.fit_circuit, pyimpspec.mpl, cf.parse_inputs, cf.format_text, cf.set_figure_size, cf.plt, cf.get_backend, cf.clear_default_handler_output)
        pyimpspec.fit_circuit, pyimpspec.mpl = fit_circuit, _FakeMpl()
        cf.parse_inputs, cf.format_text = (lambda a: {"p": [_concrete_data()]}), fmt
        cf.set_figure_size, cf.plt, cf.get_backend, cf.clear_default_handler_output = (lambda *a, **k: None), _FakePlt(), (lambda: "agg"), (lambda: None)
        try:
            ok, res = call(cf.command, None, args, print_func=printed.append)
        finally:
            (pyimpspec.fit_circuit, pyimpspec.mpl, cf.parse_inputs, cf.format_text, cf.set_figure_size, cf.plt, cf.get_backend, cf.clear_default_handler_output) = saved
        eng.check(ok, "fitcmd:completes", lambda: "%r" % (res,))
        if not ok:
            return
        eng.check(len(calls) == 1 + refinements, "fitcmd:one fit plus the requested refinements", lambda: "%d calls" % len(calls))
        for i, (circuit, kw) in enumerate(calls):
            for name, want in (("method", method), ("weight", weight), ("max_nfev", max_nfev), ("num_procs", num_procs), ("timeout", timeout)):
                got = kw.get(name, "<not passed>")
                eng.check((got is want) or (not isinstance(got, str) and not isinstance(want, (str, list)) and bool(same(got, want))) or (isinstance(want, (str, list)) and got == want),
                          "fitcmd:every fit (refinements included) uses the settings given on the command line", lambda: "call %d: %s=%r, expected %r" % (i, name, got, want))
            if i == 0:
                eng.check(circuit.to_string() == parse_cdc("R(RC)").to_string(), "fitcmd:the first fit starts from the circuit given on the command line")
            else:
                eng.check(circuit is results[i - 1].circuit, "fitcmd:a refinement starts from the previous result")
        last = len(results) - 1
        eng.check(("parameters", last) in frames and ("statistics", last) in frames and not any(f[1] != last for f in frames),
                  "fitcmd:the report shows the parameters and statistics of the final fit", lambda: "%r" % (frames,))
        eng.check(any("<parameters %d>" % last in str(x) for x in printed), "fitcmd:the report is printed")
        eng.reached("fitcmd")
    return harness


def make_identity_sequence_harness():
    """two specifiers parsed one after the other in the same process (as validate_input_paths / parse_inputs do for several inputs): what the
    second one denotes does not depend on the first, and the first result is not changed by parsing the second"""
    def harness(eng):
        import pyimpspec.cli.utility as cu
        types = {"noise": float, "seed": int, "drift": float}
        k1 = [k for k in types if eng.choice(2, "first." + k)]
        k2 = [k for k in types if eng.choice(2, "second." + k)]

        def spec(ident, keys, val):
            return ident + (":" + ",".join("%s=%s" % (k, val) for k in keys) if keys else "")
        ok1, r1 = call(cu._parse_identity, spec("CIRCUIT_1", k1, "2"))
        ok2, r2 = call(cu._parse_identity, spec("CIRCUIT_2", k2, "3"))
        eng.check(ok1 and ok2, "sequence:both specifiers are parsed", lambda: "%r %r" % (r1, r2))
        if not (ok1 and ok2):
            return
        want1 = ("CIRCUIT_1", {k: types[k]("2") for k in k1})
        want2 = ("CIRCUIT_2", {k: types[k]("3") for k in k2})
        eng.check(tuple(r2) == want2, "sequence:the second specifier denotes what it says, whatever was parsed before", lambda: "%r, wanted %r (first: %r)" % (r2, want2, want1))
        eng.check(tuple(r1) == want1, "sequence:the first result is not changed by parsing the second", lambda: "%r, wanted %r" % (r1, want1))
        eng.reached("sequence")
    return harness


def make_simulate_glue_harness():
    """cli circuit --simulate: every circuit given on the command line is simulated by the API at the frequencies _interpolate returns for
    [--max-frequency, --min-frequency] and --num-per-decade, the table handed to the formatter is that simulation, and the marked frequencies
    (--mark-frequency) are simulated with the same circuit"""
    def harness(eng):
        import pyimpspec
        import pyimpspec.cli.circuit as cc
        import pyimpspec.analysis.utility as au
        from pyimpspec import parse_cdc
        from sx.symnp import asarr
        eng.div_zero_policy = "assume"
        eng.symbolic_pi = False
        n_circ = 1 + eng.choice(2, "second_circuit")
        circuits = []
        for k in range(n_circ):
            c = parse_cdc(("RC", "RL")[k])
            for j, e in enumerate(c.get_elements()):
                for key in e.get_values():
                    v = eng.real("c%d.e%d.%s" % (k, j, key))
                    eng.assume(v > 0)
                    e.set_values(**{key: v})
            circuits.append(c)
        fmax, fmin = eng.real("max_frequency"), eng.real("min_frequency")
        eng.assume(fmin > 0)
        eng.assume(fmax > fmin)
        npd = eng.integer("num_per_decade")
        eng.assume(npd >= 1)
        grid = [eng.real("grid%d" % i, npy=True) for i in range(2)]
        marks = [eng.real("mark%d" % i, npy=True) for i in range(eng.choice(2, "marked"))]
        for f in grid + marks:
            eng.assume(f > 0)
        eng.assume(grid[0] > grid[1])
        overlay = eng.choice(2, "plot_overlay") == 1
        args = Namespace(input=["a", "b"][:n_circ], min_frequency=fmin, max_frequency=fmax, num_per_decade=npd, mark_frequency=list(marks), plot_overlay=overlay,
                         plot_type="nyquist", plot_no_legend=False, plot_colored_axes=False, plot_admittance=False, plot_title=True, annotate_frequency=False,
                         output=False, output_name=[], output_dir=".", output_format="csv", output_indices=False, output_significant_digits=6, plot_format="png", plot_dpi=100)
        interp_calls, frames, printed, plotted, overlays = [], [], [], [], []

        def interpolate(rng, num_per_decade):
            interp_calls.append((list(rng), num_per_decade))
            return mk_array(eng, list(grid))

        def fmt(df, a):
            frames.append(df)
            return "TABLE%d" % len(frames)

        class Mpl(_FakeMpl):
            pass
        mpl = Mpl()

        def plot_nyquist(data, **kw):
            plotted.append((data, dict(kw)))
            return (_FakeFigure(), [_FakeAxis(), _FakeAxis()])
        mpl.plot_nyquist = plot_nyquist
        saved = (pyimpspec.mpl, au._interpolate, cc.parse_circuits, cc.format_text, cc.plt, cc.get_backend, cc.overlay_plot)
        pyimpspec.mpl, au._interpolate = mpl, interpolate
        cc.parse_circuits, cc.format_text, cc.plt, cc.get_backend = (lambda a: list(circuits)), fmt, _FakePlt(), (lambda: "qtagg")
        cc.overlay_plot = lambda ds_, marked, plot, a: overlays.append((list(ds_), list(marked)))
        try:
            ok, res = call(lambda: _with_fake_df(lambda: cc.simulate_spectra(args, printed.append)))
        finally:
            pyimpspec.mpl, au._interpolate, cc.parse_circuits, cc.format_text, cc.plt, cc.get_backend, cc.overlay_plot = saved
        eng.check(ok, "simulate:completes", lambda: "%s: %s" % (type(res).__name__, res))
        if not ok:
            return
        eng.check(len(interp_calls) == n_circ, "simulate:one frequency grid per circuit")
        for rng, k in interp_calls:
            eng.check(len(rng) == 2 and same(rng[0], fmax) and same(rng[1], fmin) and same(k, npd),
                      "simulate:the frequency grid is asked for with the command-line range and density", lambda: "%r %r" % (rng, k))
        if overlay:
            eng.check(len(overlays) == 1, "simulate:one overlay plot")
            sims, marked = overlays[0] if overlays else ([], [])
        else:
            sims = [d for d, kw in plotted if kw.get("line", None) is not False or "figure" not in kw]
            marked = [d for d, kw in plotted if "figure" in kw]
            eng.check(len(frames) == n_circ, "simulate:one table per circuit", lambda: "%d tables" % len(frames))
        eng.check(len(sims) == n_circ and len(marked) == (n_circ if marks else 0), "simulate:every circuit is simulated (and marked) once",
                  lambda: "%d simulations, %d marked" % (len(sims), len(marked)))
        if len(sims) != n_circ or len(marked) != (n_circ if marks else 0):
            return

        def compare(data, circuit, freqs, tag):
            F, Z = list(data.get_frequencies().flat), list(data.get_impedances().flat)
            want = list(asarr(circuit.get_impedances(mk_array(eng, list(freqs)))).flat)
            eng.check(len(F) == len(freqs), tag + ":number of points")
            if len(F) != len(freqs):
                return
            order = sorted(range(len(freqs)), key=lambda i: 0) if len(freqs) < 2 else (list(range(len(freqs))) if bool(freqs[0] > freqs[1]) else list(reversed(range(len(freqs)))))
            for g, i in zip(range(len(F)), order):
                eng.check(same(F[g], freqs[i]), tag + ":frequencies", lambda: "%r vs %r" % (F[g], freqs[i]))
                eng.check(same(Z[g], want[i]), tag + ":impedances are those of the API for the same circuit", lambda: "%r vs %r" % (Z[g], want[i]))
        for k in range(n_circ):
            compare(sims[k], circuits[k], grid, "simulate:spectrum")
            eng.check(sims[k].get_label() == circuits[k].to_string(), "simulate:labelled with the circuit's code")
            if marks:
                compare(marked[k], circuits[k], marks, "simulate:marked")
        if not overlay:
            for k, df in enumerate(frames):
                rows = df.values
                eng.check(len(rows) == len(grid), "simulate:the table holds the simulated points")
                if len(rows) != len(grid):
                    continue
                cols = list(df.columns)
                want = list(asarr(circuits[k].get_impedances(mk_array(eng, list(grid)))).flat)
                for i, row in enumerate(rows):
                    rec = dict(zip(cols, row))
                    fkey = [c for c in cols if c.lower().startswith("f")][0]
                    rkey = [c for c in cols if c.lower().startswith("re")][0]
                    ikey = [c for c in cols if "im(" in c.lower()][0]
                    eng.check(same(rec[fkey], grid[i]), "simulate:table frequencies")
                    zi = rec[ikey] if not ikey.startswith("-") else -rec[ikey]
                    eng.check(same(rec[rkey], want[i].real) and same(zi, want[i].imag), "simulate:table = API impedances of that circuit",
                              lambda: "row %d of circuit %d: %r" % (i, k, rec))
        eng.reached("simulate")
    return harness


def make_drt_glue_harness():
    """cli drt --plot-overlay: each spectrum's tables (statistics, peaks above the requested threshold, scores for BHT) come from that
    spectrum's own result, computed with the settings given on the command line"""
    def harness(eng):
        import pyimpspec
        import pyimpspec.cli.drt as cd
        n_sets = 2 + eng.choice(2, "extra_set")
        method = ("tr-nnls", "bht")[eng.choice(2, "method")]
        threshold = eng.real("peak_threshold")
        lam = eng.real("lambda_value")
        max_nfev = eng.integer("max_nfev")
        opts = dict(method=method, mode="real", lambda_value=lam, cross_validation="gcv", rbf_type="gaussian", derivative_order=1, rbf_shape="fwhm", shape_coeff=0.5,
                    inductance=False, credible_intervals=False, timeout=60, num_samples=2000, num_attempts=10, maximum_symmetry=0.5, circuit="R(RC)", gaussian_width=0.15,
                    num_per_decade=10, max_nfev=max_nfev, max_iter=-1, model_order=0, model_order_method="matrix_rank", num_procs=1)
        args = Namespace(peak_threshold=threshold, plot_color=[], plot_frequency=False, plot_no_legend=False, plot_dpi=100, output=False, output_name=[""],
                         output_format="csv", output_indices=False, output_significant_digits=6, low_pass_cutoff=0.0, high_pass_cutoff=0.0, exclude_indices=[], **opts)
        sets = [_concrete_data("s%d" % k) for k in range(n_sets)]
        calls, frames, printed = [], [], []

        class DRT:
            def __init__(self, k):
                self.k = k

            def to_statistics_dataframe(self):
                return ("statistics", self.k, None)

            def to_peaks_dataframe(self, threshold=0.0):
                return ("peaks", self.k, threshold)

            def to_scores_dataframe(self):
                return ("scores", self.k, None)

        def calculate_drt(data, **kw):
            calls.append((data, kw))
            return DRT(len(calls) - 1)

        def fmt(df, a):
            frames.append(df)
            return "<%s %s>" % (df[0], df[1])
        saved = (pyimpspec.calculate_drt, pyimpspec.mpl, cd.format_text, cd.plt, cd.clear_default_handler_output, cd.get_color)
        pyimpspec.calculate_drt, pyimpspec.mpl = calculate_drt, _FakeMpl()
        cd.format_text, cd.plt, cd.clear_default_handler_output, cd.get_color = fmt, _FakePlt(), (lambda: None), (lambda c: "black")
        try:
            ok, res = call(cd.overlay_plot, {"p": list(sets)}, args, printed.append)
        finally:
            pyimpspec.calculate_drt, pyimpspec.mpl, cd.format_text, cd.plt, cd.clear_default_handler_output, cd.get_color = saved
        eng.check(ok, "drtcmd:completes", lambda: "%r" % (res,))
        if not ok:
            return
        eng.check(len(calls) == n_sets and all(c[0] is d for c, d in zip(calls, sets)), "drtcmd:one DRT per spectrum, in order")
        for data, kw in calls:
            for name, want in opts.items():
                if name == "circuit":
                    continue
                got = kw.get(name, "<not passed>")
                eng.check((got is want) or (is_symbolic(got) and bool(same(got, want))) or (not is_symbolic(got) and not is_symbolic(want) and got == want),
                          "drtcmd:every DRT is calculated with the settings given on the command line", lambda: "%s=%r, expected %r" % (name, got, want))
        want_frames = []
        show_peaks = bool(threshold >= 0.0)
        for k in range(n_sets):
            want_frames.append(("statistics", k))
            if show_peaks:
                want_frames.append(("peaks", k))
            if method == "bht":
                want_frames.append(("scores", k))
        eng.check([f[:2] for f in frames] == want_frames, "drtcmd:each spectrum is followed by the tables of its own result", lambda: "%r vs %r" % ([f[:2] for f in frames], want_frames))
        for f in frames:
            if f[0] == "peaks":
                eng.check(bool(same(f[2], threshold)), "drtcmd:peaks are listed above the requested threshold")
        eng.reached("drtcmd")
    return harness


def obligations(tier: str):
    from sx.runner import Obligation
    import pyimpspec.cli.utility as cu
    import pyimpspec.cli.parse as cp
    import pyimpspec.data.data_set as ds
    obs = []
    mk, vl = (1, 2) if tier == "quick" else (1, 3)
    stubs = ["generate_mock_data / generate_mock_circuits are replaced by a recorder (what reaches them is the subject)",
             "float(text) / int(text): Python's numeral syntax decided exactly on the symbolic characters; the value is an uninterpreted number, the same for the same characters",
             "parse: parse_inputs returns the symbolic data set(s); format_text records the table it is handed; pandas.DataFrame is a stand-in holding columns and rows"]
    for route in ("data", "circuits", "inputs"):
        obs.append(Obligation("identity.%s" % route, make_identity_harness(mk if route != "inputs" else 2, vl, route, concrete_values=(route == "inputs")),
                              bounds="specifier = identifier (CIRCUIT_1 | 1-2 symbolic bracket-free characters | R{2 symbolic characters}+0-1 symbolic characters) + 0..%d keyword arguments out of the 6 "
                                     "documented ones, each value 1..%d symbolic ASCII characters, optional blanks around an argument; route %s%s" % (
                                         mk, vl, route, " (concrete identifier and values from a list: parse_inputs hashes its paths)" if route == "inputs" else ""),
                              functions=[cu._parse_identity, cu.get_mock_data, cu.get_mock_circuits, cu.parse_inputs], stubs=stubs, expect_reach=["identity"], max_paths=2000000))
    obs.append(Obligation("identity.two", make_identity_harness(2, 1, "data", concrete_values=True),
                          bounds="as identity.data with 0..2 keyword arguments whose values are taken from a list of numerals and non-numerals (%r)" % (CONCRETE_VALUES,),
                          functions=[cu._parse_identity, cu.get_mock_data], stubs=stubs, expect_reach=["identity"], max_paths=2000000))
    obs.append(Obligation("identity.sequence", make_identity_sequence_harness(), bounds="two specifiers parsed one after the other, each with any subset of the keywords noise / seed / drift",
                          functions=[cu._parse_identity], stubs=[], expect_reach=["sequence"]))
    for two in (False, True):
        n = (2 if two else 3) if tier == "quick" else (3 if two else 4)
        obs.append(Obligation("parse.%d" % (2 if two else 1), make_parse_harness(n, two),
                              bounds="cli parse command on %d data set(s) of %d symbolic points, symbolic low-/high-pass cut-offs (any sign), every subset of excluded indices incl. one out of range"
                                     % (2 if two else 1, n), functions=[cp.command, cu.apply_filters, ds.DataSet.low_pass, ds.DataSet.high_pass, ds.DataSet.set_mask, ds.DataSet.to_dataframe],
                              stubs=stubs, expect_reach=["parse"], max_paths=2000000))
    import pyimpspec.cli.fit as cf
    import pyimpspec.cli.drt as cd
    gstubs = ["fit_circuit / calculate_drt are recorders returning tagged results; pyimpspec.mpl, matplotlib.pyplot, format_text, parse_inputs are stand-ins"]
    obs.append(Obligation("fit.glue", make_fit_glue_harness(), bounds="cli fit command: symbolic max_nfev / num_procs / timeout, 0..2 refinements, 3 method and 2 weight spellings, 2 plot types",
                          functions=[cf.command], stubs=gstubs, expect_reach=["fitcmd"]))
    obs.append(Obligation("drt.glue", make_drt_glue_harness(), bounds="cli drt --plot-overlay: 2..3 spectra, symbolic peak threshold (any sign), lambda and max_nfev, methods tr-nnls / bht",
                          functions=[cd.overlay_plot], stubs=gstubs, expect_reach=["drtcmd"]))
    import pyimpspec.cli.circuit as cc
    import pyimpspec.circuit.circuit as circ
    obs.append(Obligation("simulate.glue", make_simulate_glue_harness(), bounds="cli circuit --simulate: 1..2 circuits with symbolic parameter values, symbolic frequency range and density, "
                          "0..1 marked frequencies, individual or overlay plots; two-point frequency grid",
                          functions=[cc.simulate_spectra, cc.individual_plots, circ.Circuit.get_impedances],
                          stubs=["_interpolate is a recorder returning a symbolic two-point grid; parse_circuits returns circuits with symbolic values; pyimpspec.mpl, matplotlib.pyplot, "
                                 "format_text, overlay_plot are stand-ins"], expect_reach=["simulate", "simulate:table = API impedances of that circuit"]))
    for o in obs:
        o.replay = o.harness
    return obs


EXPLANATION = (
    "Bounded symbolic execution with z3 of the real command-line glue code: the characters of a mock-data specifier, the numbers of a spectrum and the "
    "filter cut-offs are solver variables; z3 decides whether the call that reaches the API can carry anything but what the specifier says, and whether "
    "the table handed to the formatter can differ from what the API sequence of filters and exclusions leaves."
)
ASSUMPTIONS = ["identifiers contain ':' only inside brackets (mock identifiers have none; in a circuit description code a colon only occurs inside braces)",
               "value texts contain no white space, none of ':' ',' '=' '_', no brackets and none of the letters of inf / nan / infinity (those spellings are outside)", "floats as reals; numerals as uninterpreted numbers"]
OUTSIDE = ["text formatting of numbers (pandas to_csv / to_markdown / to_json / to_latex)", "argparse, configuration files, output files", "the commands test, zhit, plot and "
           "drt without --plot-overlay; matplotlib and the numerical pipelines behind fit / drt (only what the commands hand to the API and which result they print is decided)", "--average-data-sets", "that generate_mock_data itself is deterministic (C17)"]


def replay(obligation: str, witness):
    from sx.concrete import run_concrete
    for tier in replay_tiers():
        for ob in obligations(tier):
            if ob.name == obligation:
                reproduced, msg, _ = run_concrete(ob.harness, witness)
                return reproduced, msg
    raise KeyError(obligation)
