"""C01 -- circuit impedance obeys the series/parallel composition laws.

The real Series._impedance / Parallel._impedance / _calculate_impedances / Circuit.get_impedances run
on stub leaves whose impedance at each frequency index is one of {finite non-zero symbolic complex,
0, +inf}; the oracle is the algebraic law written directly over those variables.
"""
from __future__ import annotations

import itertools
from typing import Any, List

from .common import call, same, is_symbolic, PathAbort, mk_array, replay_tiers
from .c02 import opaque_class, shapes, _shape_name

PROP = "C01"
INF = complex(float("inf"), 0.0)
KINDS = ("finite", "zero", "inf")


def law(node, i, nf, eng=None):
    """expected impedance of `node` at frequency index i -- the point-wise law: 'inf' or a value.
    series: sum (open if any part is open); parallel: 0 if any branch is 0, open branches contribute
    nothing, open if every branch is open, else the reciprocal of the sum of reciprocals."""
    kind = node[0]
    if kind == "leaf":
        return node[1][i]
    vals = [law(k, i, nf, eng) for k in node[1]]
    if kind == "S":
        if not vals:
            return 0
        if any(isinstance(v, str) for v in vals):
            return "inf"
        tot = 0
        for v in vals:
            tot = tot + v
        return tot
    if not vals:
        return 0
    live = [v for v in vals if not isinstance(v, str)]
    for v in live:
        if bool(same(v, 0)):      # forks when the branch impedance is a symbolic sum that may vanish
            return 0
    if not live:
        return "inf"
    tot = 0
    for v in live:
        tot = tot + 1 / v
    if eng is not None:
        eng.assume(tot != 0)      # admittances that cancel exactly: outside the claim
    return 1 / tot


def build(eng, shape, nf, kinds_allowed=KINDS, uniform_inf=True):
    """-> (connection object, model tree)"""
    from pyimpspec.circuit.series import Series
    from pyimpspec.circuit.parallel import Parallel
    Opaque = opaque_class()
    counter = [0]

    def rec(sh):
        if sh == "e":
            k = counter[0]
            counter[0] += 1
            entries, model = [], []
            first_kind = None
            for i in range(nf):
                kind = kinds_allowed[eng.choice(len(kinds_allowed), "leaf%d.kind%d" % (k, i))]
                if uniform_inf and i > 0 and ((kind == "inf") != (first_kind == "inf")):
                    raise PathAbort("open at all frequencies or at none (the mixed case is a separate obligation)")
                if i == 0:
                    first_kind = kind
                if kind == "finite":
                    z = eng.complex("z%d_%d" % (k, i))
                    eng.assume(z != 0)
                    entries.append(z)
                    model.append(z)
                elif kind == "zero":
                    entries.append(complex(0.0, 0.0))
                    model.append(0)
                else:
                    entries.append(INF)
                    model.append("inf")
            return Opaque("z%d" % k, entries), ("leaf", model)
        kind, kids = sh
        built = [rec(k) for k in kids]
        con = (Series if kind == "S" else Parallel)([b[0] for b in built])
        return con, (kind, [b[1] for b in built])
    return rec(shape)


def _expect(eng, tree, nf):
    return True, [law(tree, i, nf, eng) for i in range(nf)]


def make_law_harness(shape, nf, entry: str):
    """entry: 'raw' = con._impedance(f); 'api' = con.get_impedances(f) / Circuit(con).get_impedances(f)"""
    def harness(eng):
        from sx.symnp import SArr
        import numpy as np
        from pyimpspec.exceptions import InfiniteImpedance, NotANumberImpedance
        from pyimpspec.circuit.circuit import Circuit
        eng.div_zero_policy = "fork"
        con, tree = build(eng, shape, nf)
        fs = [eng.real("f%d" % i, npy=True) for i in range(nf)]
        for f in fs:
            eng.assume(f > 0)
        farr = mk_array(eng, fs)
        okm, exp = _expect(eng, tree, nf)
        if entry == "raw":
            ok, Z = call(con._impedance, farr)
        elif entry == "api":
            ok, Z = call(con.get_impedances, farr)
        else:
            ok, Z = call(Circuit(con).get_impedances, farr)
        any_inf = any(isinstance(x, str) for x in exp)
        if entry != "raw" and any_inf:
            eng.check((not ok) and isinstance(Z, InfiniteImpedance), "infinite result is reported as InfiniteImpedance",
                      lambda: "got %r" % (Z,))
            eng.reached("law")
            return
        eng.check(ok, "evaluates", lambda: "raised %r" % (Z,))
        if not ok:
            return
        zs = list(Z.flat) if hasattr(Z, "flat") else list(Z)
        eng.check(len(zs) == nf, "one value per frequency")
        for i in range(nf):
            if isinstance(exp[i], str):
                from sx.symnp import isinf
                eng.check(bool(isinf(zs[i])), "law", lambda: "index %d expected inf got %r" % (i, zs[i]))
            else:
                eng.check(same(zs[i], exp[i]), "law", lambda: "shape %s index %d: got %r expected %r" % (_shape_name(shape), i, zs[i], exp[i]))
    return harness


def make_mixed_harness():
    """leaves that are open at some frequencies only: the documented guard may refuse the circuit with
    InfiniteImpedance; if a value is returned it is the point-wise law"""
    def harness(eng):
        import numpy as np
        from pyimpspec.exceptions import InfiniteImpedance
        from sx.symnp import isinf
        con, tree = build(eng, ("P", ("e", "e")), 2, uniform_inf=False)
        fs = [eng.real("f%d" % i, npy=True) for i in range(2)]
        for f in fs:
            eng.assume(f > 0)
        okm, exp = _expect(eng, tree, 2)
        ok, Z = call(con._impedance, mk_array(eng, fs))
        if not ok:
            eng.check(isinstance(Z, InfiniteImpedance), "only InfiniteImpedance is raised", lambda: "got %r" % (Z,))
        else:
            for i in range(2):
                if isinstance(exp[i], str):
                    eng.check(bool(isinf(Z.flat[i])), "law")
                else:
                    eng.check(same(Z.flat[i], exp[i]), "law", lambda: "index %d: got %r expected %r" % (i, Z.flat[i], exp[i]))
        eng.reached("law")
    return harness


def make_pointwise_harness(shape, nf):
    """evaluating an array equals evaluating each frequency on its own (leaves: finite/zero/open-everywhere)"""
    def harness(eng):
        from sx.symnp import SArr
        import numpy as np
        eng.div_zero_policy = "assume"      # admittances that cancel exactly are cut away (outside the claim)
        con, tree = build(eng, shape, nf)
        fs = [eng.real("f%d" % i, npy=True) for i in range(nf)]
        for f in fs:
            eng.assume(f > 0)
        ok, Z = call(con._impedance, mk_array(eng, fs))
        Opaque = opaque_class()
        for i in range(nf):
            # the same circuit seen at frequency i only
            def restrict(c):
                if isinstance(c, Opaque):
                    return Opaque(c._zname, [c._zs[i]])
                return type(c)([restrict(k) for k in c._elements])
            ok1, Z1 = call(restrict(con)._impedance, mk_array(eng, [fs[i]]))
            eng.check(ok == ok1 or not ok, "array and single-frequency evaluation agree on success",
                      lambda: "array ok=%r single ok=%r (%r)" % (ok, ok1, Z1))
            if ok and ok1:
                a, b = Z.flat[i], Z1.flat[0]
                from sx.symnp import isinf
                if bool(isinf(a)) or bool(isinf(b)):
                    eng.check(bool(isinf(a)) and bool(isinf(b)), "pointwise")
                else:
                    eng.check(same(a, b), "pointwise", lambda: "index %d: %r vs %r" % (i, a, b))
        eng.reached("pointwise")
    return harness


def opaque_container_class():
    from pyimpspec.circuit.base import Container
    import numpy as np
    from sx.symnp import SArr
    key = "ccls"
    from .c02 import _OPAQUE
    if key in _OPAQUE and _OPAQUE["cbase"] is Container:
        return _OPAQUE[key]

    class OpaqueContainer(Container):
        """impedance = own opaque value + impedance of the sub-circuit X it is given (so that handing it the
        wrong sub-circuit is visible)"""
        _symbol = "Oc"
        _name = "opaque container"
        _subcircuit_default_value = {"X": None}
        _valid_kwargs_keys = {"X"}

        def __init__(self, zs, **kw):
            super().__init__(**kw)
            self._zs = list(zs)

        def _impedance(self, f, X=None):
            n = f.size
            vals = [self._zs[i % len(self._zs)] for i in range(n)]
            if X is not None:
                sub = X._impedance(f)
                vals = [v + sub.flat[i] if hasattr(sub, "flat") else v + sub[i] for i, v in enumerate(vals)]
            if any(is_symbolic(v) for v in vals):
                return SArr(vals, (n,), np.complex128)
            return np.array(vals, dtype=np.complex128)

    _OPAQUE[key], _OPAQUE["cbase"] = OpaqueContainer, Container
    return OpaqueContainer


def make_dispatch_harness(kind: str):
    """a connection holding an element, a container element and a nested connection: all three dispatch
    branches of Series/Parallel._impedance"""
    def harness(eng):
        from pyimpspec.circuit.series import Series
        from pyimpspec.circuit.parallel import Parallel
        Opaque, OC = opaque_class(), opaque_container_class()
        z = [eng.complex("z%d" % i) for i in range(4)]
        for v in z:
            eng.assume(v != 0)
        f = eng.real("f", npy=True)
        eng.assume(f > 0)
        inner_kind = "P" if kind == "S" else "S"
        zx = [eng.complex("zx%d" % i) for i in range(2)]
        inner = (Parallel if inner_kind == "P" else Series)([Opaque("c", [z[2]]), OC([z[3]], X=Series([Opaque("x1", [zx[1]])]))])
        con = (Series if kind == "S" else Parallel)([Opaque("a", [z[0]]), OC([z[1]], X=Series([Opaque("x0", [zx[0]])])), inner])
        eng.assume(z[1] + zx[0] != 0)
        eng.assume(z[3] + zx[1] != 0)
        tree = (kind, [("leaf", [z[0]]), ("leaf", [z[1] + zx[0]]), (inner_kind, [("leaf", [z[2]]), ("leaf", [z[3] + zx[1]])])])
        exp = law(tree, 0, 1, eng)
        ok, Z = call(con.get_impedances, mk_array(eng, [f]))
        eng.check(ok, "evaluates", lambda: "raised %r" % (Z,))
        if ok:
            eng.check(same(Z.flat[0], exp), "law", lambda: "got %r expected %r" % (Z.flat[0], exp))
    return harness


def make_circuit_forms_harness():
    """Circuit(x) for x a Series, Parallel, Element or list of elements has the impedance of x"""
    def harness(eng):
        from sx.symnp import SArr
        import numpy as np
        from pyimpspec.circuit.circuit import Circuit
        from pyimpspec.circuit.series import Series
        from pyimpspec.circuit.parallel import Parallel
        Opaque = opaque_class()
        z = [eng.complex("z%d" % i) for i in range(2)]
        for v in z:
            eng.assume(v != 0)
        f = eng.real("f", npy=True)
        eng.assume(f > 0)
        farr = mk_array(eng, [f])
        form = eng.choice(4, "form")
        a, b = Opaque("a", [z[0]]), Opaque("b", [z[1]])
        if form == 0:
            x, exp = Series([a, b]), z[0] + z[1]
        elif form == 1:
            eng.assume(z[0] + z[1] != 0)          # admittances that cancel exactly: outside the claim
            x, exp = Parallel([a, b]), 1 / (1 / z[0] + 1 / z[1])
        elif form == 2:
            x, exp = a, z[0]
        else:
            x, exp = [a, b], z[0] + z[1]
        ok, c = call(Circuit, x)
        eng.check(ok, "Circuit(x) constructs", lambda: "raised %r" % (c,))
        if not ok:
            return
        ok, Z = call(c.get_impedances, farr)
        eng.check(ok, "Circuit(x) evaluates", lambda: "form %d raised %r" % (form, Z))
        if ok:
            eng.check(same(Z.flat[0], exp), "law", lambda: "form %d: %r vs %r" % (form, Z.flat[0], exp))
    return harness


SUB_FORMS = ["[R]", "[(RC)(RC)]", "([RC][RL])", "[R(RC)]", "[[RC]]", "short", "open"]       # (a single-item parallel can only be built directly)


def _sub(form: str):
    """a fresh sub-circuit of the given shape, with binary-exact parameter values"""
    from pyimpspec.circuit.series import Series
    from pyimpspec.circuit.parallel import Parallel
    from pyimpspec.circuit.resistor import Resistor
    from pyimpspec.circuit.capacitor import Capacitor
    from pyimpspec.circuit.inductor import Inductor
    R, C, L = (lambda v: Resistor(R=v)), (lambda v: Capacitor(C=v)), (lambda v: Inductor(L=v))
    return {
        "short": lambda: Series([]),
        "open": lambda: None,
        "[R]": lambda: Series([R(2.0)]),
        "[(RC)(RC)]": lambda: Series([Parallel([R(3.0), C(0.5)]), Parallel([R(1.5), C(0.25)])]),
        "([RC][RL])": lambda: Parallel([Series([R(7.0), C(0.125)]), Series([R(40.0), L(0.5)])]),
        "[R(RC)]": lambda: Series([R(5.0), Parallel([R(3.0), C(0.5)])]),
        "[[RC]]": lambda: Series([Series([R(6.0), C(2.0)])]),
    }[form]()


def make_routes_harness():
    """a circuit with a container element has the same impedance whether it is built from objects, assembled with the
    CircuitBuilder (which goes through the text form) or parsed from its own serialisation -- for every frequency"""
    def harness(eng):
        from pyimpspec import Circuit, CircuitBuilder, parse_cdc
        from pyimpspec.circuit.series import Series
        from pyimpspec.circuit.resistor import Resistor
        from pyimpspec.circuit.registry import get_elements
        eng.div_zero_policy = "assume"
        Tlm = get_elements(private=True)["Tlm"]
        keys = ["X_1", "X_2", "Z_A", "Z_B", "Zeta"]
        which = eng.choice(len(keys), "key")
        form = SUB_FORMS[eng.choice(len(SUB_FORMS), "form")]

        def tlm(setter=0):
            subs = {"X_1": _sub("[R]"), "X_2": Series([]), "Z_A": None, "Z_B": None, "Zeta": _sub("[[RC]]")}
            subs[keys[which]] = _sub(form)
            if setter == 0:
                t = Tlm(**subs)
            elif setter == 1:
                t = Tlm()
                t.set_subcircuits(**subs)
            else:
                t = Tlm()
                t.set_subcircuits(*[x for kv in subs.items() for x in kv])
            t.set_values(L=0.5)
            return t
        f = eng.real("f", npy=True)
        eng.assume(f > 0)
        farr = mk_array(eng, [f])
        direct = Circuit(Series([Resistor(R=8.0), tlm()]))
        ok, Zd = call(direct.get_impedances, farr)
        if not ok:
            raise PathAbort("the directly built circuit cannot be evaluated: %r" % (Zd,))
        routes = {}
        with CircuitBuilder() as b:
            b += Resistor(R=8.0)
            b += tlm()
        routes["builder"] = lambda: b.to_circuit()
        routes["set_subcircuits(**kw)"] = lambda: Circuit(Series([Resistor(R=8.0), tlm(1)]))
        routes["set_subcircuits(*pairs)"] = lambda: Circuit(Series([Resistor(R=8.0), tlm(2)]))
        routes["serialise+parse"] = lambda: parse_cdc(direct.serialize())
        routes["to_string(12)+parse"] = lambda: parse_cdc(direct.to_string(12))
        for name, make in routes.items():
            ok, c = call(make)
            eng.check(ok, "routes:every construction route yields a circuit", lambda: "%s: %r" % (name, c))
            if not ok:
                continue
            ok, Z = call(c.get_impedances, farr)
            eng.check(ok, "routes:every construction route yields a circuit that can be evaluated", lambda: "%s (%s=%s): %r" % (name, keys[which], form, Z))
            if ok:
                eng.check(same(Z.flat[0], Zd.flat[0]), "routes:the impedance does not depend on how the circuit was built",
                          lambda: "%s, %s=%s" % (name, keys[which], form))
        eng.reached("routes")
    return harness


def obligations(tier: str):
    from sx.runner import Obligation
    import pyimpspec.circuit.series as series
    import pyimpspec.circuit.parallel as parallel
    import pyimpspec.circuit.base as base
    import pyimpspec.circuit.circuit as circuit
    funcs = [series.Series._impedance, parallel.Parallel._impedance, base._calculate_impedances, circuit.Circuit.get_impedances,
             circuit.Circuit.__init__, base.Connection.get_impedances]
    obs = []
    # (4 leaves were tried for the thorough tier: three finite admittances in parallel give cubic cancellation conditions on which z3
    #  answers unknown, so the thorough tier deepens frequencies and entry points instead of leaves)
    shp = shapes(3, 2)
    nf = 2
    for sh in shp:
        for entry in ("raw", "api", "circuit"):
            if entry != "raw" and tier == "quick" and len(_shape_name(sh)) > 5:
                continue
            nm = "law.%s.%s" % (_shape_name(sh), entry)
            obs.append(Obligation(nm, make_law_harness(sh, nf, entry),
                                  bounds="connection %s, %d frequencies, every leaf entry in {finite non-zero, 0, inf (at all frequencies or none)}; entry point %s"
                                         % (_shape_name(sh), nf, entry), functions=funcs, expect_reach=["law"],
                                  stubs=["leaves are opaque Element subclasses returning symbolic impedances"]))
    if tier == "thorough":
        for sh in shapes(3, 2):
            nm = "law3.%s" % _shape_name(sh)
            obs.append(Obligation(nm, make_law_harness(sh, 3, "raw"), bounds="connection %s, 3 frequencies" % _shape_name(sh),
                                  functions=funcs, expect_reach=["law"]))
    obs.append(Obligation("mixed", make_mixed_harness(), bounds="(ee), 2 frequencies, leaves open at any subset of frequencies",
                          functions=funcs, expect_reach=["law"]))
    npw = 2 if tier == "quick" else 3
    for sh in shapes(3, 2):
        obs.append(Obligation("pointwise.%s" % _shape_name(sh), make_pointwise_harness(sh, npw),
                              bounds="connection %s: array of %d frequencies vs one at a time" % (_shape_name(sh), npw),
                              functions=funcs, expect_reach=["pointwise"]))
    for k in ("S", "P"):
        obs.append(Obligation("dispatch.%s" % k, make_dispatch_harness(k), bounds="%s over {element, container element, nested connection}" % k,
                              functions=funcs, expect_reach=["law"]))
    import pyimpspec.circuit.circuit_builder as cb
    obs.append(Obligation("routes", make_routes_harness(), bounds="R + general transmission line whose sub-circuit X_1|X_2|Z_A|Z_B|Zeta is one of %d shapes (incl. connections only); "
                          "objects (constructor or set_subcircuits) vs CircuitBuilder vs serialise/parse; binary-exact parameter values, symbolic frequency" % len(SUB_FORMS),
                          functions=funcs + [cb.CircuitBuilder.to_circuit, cb.CircuitBuilder._to_string, base.Container.to_string],
                          stubs=["non-integer powers, sqrt, coth/tanh are uninterpreted with eager congruence"], expect_reach=["routes"], mode="fresh"))
    obs.append(Obligation("circuit_forms", make_circuit_forms_harness(), bounds="Circuit(Series|Parallel|Element|list of elements)",
                          functions=funcs, expect_reach=["law"]))
    for o in obs:
        o.replay = True
    return obs


EXPLANATION = (
    "Bounded symbolic execution of the real Series/Parallel._impedance, _calculate_impedances and Circuit.get_impedances with z3: "
    "leaf impedances are symbolic complex numbers (or 0 / inf, chosen per leaf and frequency by the solver-driven exploration), "
    "frequencies are symbolic positive reals; on every feasible path the returned value is compared with the series/parallel law "
    "written directly over the leaf variables (equality of complex rational functions decided by polynomial normalisation + z3)."
)
ASSUMPTIONS = [
    "leaves are opaque: element formulas are the subject of C02",
    "a branch is open (infinite) at every frequency or at none; the mixed case is checked to be refused",
    "floats as reals; positive finite frequencies",
]
OUTSIDE = ["more than 3 leaves / nesting deeper than 2 / more than 2 (3) frequencies", "f = 0 and f = inf (sympy limits)",
           "builder and parser construction beyond the container shapes of the routes obligation (structural equality is decided under C03)"]


def replay(obligation: str, witness):
    """rebuild the circuit from real elements whose impedance realises the leaf kinds: finite -> resistor,
    zero -> shorted (R=0), inf -> open container branch is not expressible for a plain element, so an
    inductor-free trick is used: a Series of nothing is 0; an infinite leaf is a capacitor at f -> handled
    by the stub only.  Replays therefore use the stub leaves on the plain library with concrete numbers."""
    import numpy as np
    import sys
    from sx.concrete import ConcreteEngine
    from sx.engine import PathAbort as PA
    for tier in replay_tiers():
        for ob in obligations(tier):
            if ob.name == obligation:
                from sx.concrete import run_concrete
                reproduced, msg, _ = run_concrete(ob.harness, witness)
                return reproduced, msg
    raise KeyError(obligation)
