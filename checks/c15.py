"""C15 -- the element registry and class defaults can always be restored.

(a) symbols: over symbolic ASCII strings the real _validate_element_symbol accepts exactly
    [A-Z][a-z0-9_]*, and the real tokenizer scans exactly such a string as one element identifier
    (longest match), whatever follows it;
(b) histories: every sequence (bounded length, operations chosen by solver-driven exploration, the
    changed default value symbolic) of register / remove / reset / set_default_values /
    reset_default_parameter_values / parse_cdc / get_elements on the real registry is compared step by
    step with a dictionary model; built-ins are never removed or replaced, refused registrations leave
    the registry unchanged, and after reset() everything equals the snapshot taken at import.
"""
from __future__ import annotations

import string
from typing import Any, Dict, List

from .common import call, same, is_symbolic, PathAbort, replay_tiers

PROP = "C15"


# --------------------------------------------------------------------------- (a) symbols
def make_symbol_harness(n: int):
    def harness(eng):
        import pyimpspec.circuit.registry as reg
        if eng.symbolic:
            from sx.strs import SStr, schar
            import z3
            chars = [schar("s%d" % i, ascii_only=True) for i in range(n)]
            sym = SStr(chars)
            shape = [chars[0].in_term(string.ascii_uppercase)] + [c.in_term(string.ascii_lowercase + string.digits + "_") for c in chars[1:]]
            from sx.values import SBool
            want = SBool(z3.And(*shape)) if len(shape) > 1 else SBool(shape[0])
        else:
            sym = "".join(chr(eng.integer("s%d" % i)) for i in range(n))
            want = sym[0] in string.ascii_uppercase and all(c in string.ascii_lowercase + string.digits + "_" for c in sym[1:])
        ok, res = call(reg._validate_element_symbol, sym)
        if ok:
            eng.check(want, "only [A-Z][a-z0-9_]* is accepted as an element symbol", lambda: "accepted %r" % (sym,))
        else:
            eng.check(isinstance(res, ValueError), "refusal is a ValueError", lambda: "%r" % (res,))
            from sx.values import s_not
            eng.check(s_not(want) if is_symbolic(want) else (not want), "every [A-Z][a-z0-9_]* string is accepted", lambda: "refused %r" % (sym,))
        eng.reached("symbol")
    return harness


def make_scan_harness(n: int, follow: str):
    """a valid symbol of n characters followed by nothing / an arbitrary non-continuation character is
    scanned as exactly one identifier token holding the whole symbol"""
    def harness(eng):
        import pyimpspec.circuit.tokenizer as tk
        cont = string.ascii_lowercase + string.digits + "_"
        if eng.symbolic:
            from sx.strs import SStr, schar
            from sx.values import SBool
            chars = [schar("s%d" % i, ascii_only=True) for i in range(n)]
            eng.assume(SBool(chars[0].in_term(string.ascii_uppercase)))
            for c in chars[1:]:
                eng.assume(SBool(c.in_term(cont)))
            rest = []
            if follow == "char":
                nxt = schar("next")
                import z3
                eng.assume(SBool(z3.Not(nxt.in_term(cont))))
                rest = [nxt]
            text = SStr(chars + rest)
            items = chars + rest
        else:
            chars = [chr(eng.integer("s%d" % i)) for i in range(n)]
            rest = [chr(eng.integer("next"))] if follow == "char" else []
            if not (chars[0] in string.ascii_uppercase and all(c in cont for c in chars[1:]) and all(c not in cont for c in rest)):
                raise PathAbort("witness violates the assumptions")
            text = "".join(chars + rest)
            items = list(text)
        t = tk.Tokenizer()
        t._original, t._chars, t._tokens, t._value, t._index, t._start, t._end = text, list(items), [], "", 0, 0, -1
        ok, res = call(t.main_loop)
        eng.check(ok, "a valid symbol is tokenised", lambda: "raised %r" % (res,))
        if not ok:
            return
        eng.check(len(t._tokens) == 1 and type(t._tokens[0]) is tk.Identifier, "one identifier token")
        tok = t._tokens[0]
        eng.check(tok.start == 0 and tok.end == n and len(t._chars) == len(rest), "longest match: the identifier is the whole symbol",
                  lambda: "span %d..%d of %r" % (tok.start, tok.end, text))
        if eng.symbolic:
            from sx.strs import SStr
            eng.check(bool(same(SStr.lift(tok.value), SStr(chars))), "identifier text is the symbol")
        else:
            eng.check(tok.value == "".join(chars), "identifier text is the symbol")
        eng.reached("scan")
    return harness


# --------------------------------------------------------------------------- (b) histories
_SNAP: Dict[str, Any] = {}


def _snapshot(reg):
    if _SNAP.get("reg") is not reg:
        _SNAP.clear()
        _SNAP["reg"] = reg
        _SNAP["elements"] = dict(reg._ELEMENTS)
        _SNAP["default_elements"] = dict(reg._DEFAULT_ELEMENTS)
        _SNAP["private"] = dict(reg._PRIVATE_ELEMENTS)
        _SNAP["defaults"] = {k: (dict(c._parameter_default_value), dict(c._parameter_default_lower_limit),
                                 dict(c._parameter_default_upper_limit), dict(c._parameter_default_fixed), c._symbol, c._equation)
                             for k, c in reg._DEFAULT_ELEMENTS.items()}
        _SNAP["default_params"] = {k: dict(v) for k, v in reg._DEFAULT_ELEMENT_PARAMETERS.items()}
    return _SNAP


def _restore(reg):
    """put the process-global registry back to the import-time snapshot (direct state restoration, not the API under test)"""
    s = _snapshot(reg)
    reg._ELEMENTS.clear()
    reg._ELEMENTS.update(s["elements"])
    reg._DEFAULT_ELEMENTS.clear()
    reg._DEFAULT_ELEMENTS.update(s["default_elements"])
    reg._PRIVATE_ELEMENTS.clear()
    reg._PRIVATE_ELEMENTS.update(s["private"])
    reg._DEFAULT_ELEMENT_PARAMETERS.clear()
    reg._DEFAULT_ELEMENT_PARAMETERS.update({k: dict(v) for k, v in s["default_params"].items()})
    for k, c in s["default_elements"].items():
        dv, dl, du, df, sym, eq = s["defaults"][k]
        c._parameter_default_value.clear()
        c._parameter_default_value.update(dv)
        c._parameter_default_lower_limit.clear()
        c._parameter_default_lower_limit.update(dl)
        c._parameter_default_upper_limit.clear()
        c._parameter_default_upper_limit.update(du)
        c._parameter_default_fixed.clear()
        c._parameter_default_fixed.update(df)
        c._symbol, c._equation = sym, eq


def _user_classes():
    from pyimpspec.circuit.base import Element

    class UserA(Element):
        def _impedance(self, f, R):
            return R + 0j * f

    class UserB(Element):
        def _impedance(self, f, R):
            return R + 0j * f

    class UserBad(Element):
        def _impedance(self, f, R):
            return 2 * R + 0j * f
    return UserA, UserB, UserBad


def _definition(reg, Class, symbol, equation="R"):
    from numpy import inf
    return reg.ElementDefinition(Class=Class, symbol=symbol, name="user element", description="a user-defined element", equation=equation,
                                 parameters=[reg.ParameterDefinition(symbol="R", unit="ohm", description="resistance", value=10.0,
                                                                     lower_limit=0.0, upper_limit=inf, fixed=False)])


OPS = ("register_valid", "register_second", "register_inconsistent", "register_duplicate_symbol", "register_private_builtin_symbol", "register_invalid_symbol",
       "remove", "reset_all", "reset_elements_only", "reset_defaults_only", "set_default", "reset_default_values", "set_default_unknown_key")


def check_registry(eng, reg, model, tag):
    ok, res = call(_check_registry, eng, reg, model, tag)
    eng.check(ok, tag + ":the registry views can be computed", lambda: "%s: %s" % (type(res).__name__, res))
    if not ok:
        raise PathAbort("registry unusable")


def _check_registry(eng, reg, model, tag):
    s = _snapshot(reg)
    pub = reg.get_elements()
    allp = reg.get_elements(private=True)
    dflt = reg.get_elements(default_only=True, private=True)
    # built-ins are never removed or replaced
    ok = all(k in allp and allp[k] is c for k, c in s["default_elements"].items())
    eng.check(ok, tag + ":built-ins present and not replaced")
    eng.check(dict(dflt) == s["default_elements"], tag + ":default_only view equals the import-time snapshot")
    want_all = set(s["default_elements"]) | set(model["user"])
    eng.check(set(allp) == want_all, tag + ":registered symbols", lambda: "got %r wanted %r" % (sorted(set(allp) ^ want_all), sorted(model["user"])))
    want_pub = {k for k in want_all if k not in s["private"] and not model["user"].get(k, (None, False))[1]}
    eng.check(set(pub) == want_pub, tag + ":public view hides exactly the private elements",
              lambda: "difference %r" % (sorted(set(pub) ^ want_pub),))
    for k, (cls, priv) in model["user"].items():
        eng.check(allp.get(k) is cls, tag + ":user symbol maps to its class")
    # class defaults of the built-ins
    R = s["default_elements"]["R"]
    eng.check(same(R.get_default_value("R"), model["R_default"]), tag + ":default value as last set / reset",
              lambda: "got %r wanted %r" % (R.get_default_value("R"), model["R_default"]))
    # ... and of a private built-in (K, the Kramers-Kronig RC element): a reset restores every element included by default
    K = s["default_elements"]["K"]
    eng.check(same(K.get_default_value("R"), model["K_default"]), tag + ":default value of a private built-in as last set / reset",
              lambda: "KramersKronigRC default R: got %r wanted %r" % (K.get_default_value("R"), model["K_default"]))
    for k, c in s["default_elements"].items():
        dv, dl, du, df, sym, eq = s["defaults"][k]
        okc = c._symbol == sym and c._equation == eq and dict(c._parameter_default_lower_limit) == dl and dict(c._parameter_default_upper_limit) == du
        if k == "K":
            okc = okc and {a: b for a, b in c._parameter_default_value.items() if a != "R"} == {a: b for a, b in dv.items() if a != "R"}
        elif k != "R":
            okc = okc and dict(c._parameter_default_value) == dv
        eng.check(okc, tag + ":other built-in definitions untouched", lambda: "element %s" % k)
    # the parser recognises exactly the registered symbols
    from pyimpspec import parse_cdc
    from pyimpspec.exceptions import ParsingError
    for symname in ("R", "U", "V"):
        ok, res = call(parse_cdc, symname)
        if symname in want_all:
            eng.check(ok and type(res.get_elements()[0]) is allp[symname], tag + ":parser accepts a registered symbol", lambda: "%s: %r" % (symname, res))
        else:
            eng.check((not ok) and isinstance(res, ParsingError), tag + ":parser rejects an unregistered symbol", lambda: "%s: %r" % (symname, res))


def make_history_harness(length: int):
    def harness(eng):
        import pyimpspec.circuit.registry as reg
        eng.symbolic_pi = False
        _restore(reg)
        s = _snapshot(reg)
        UserA, UserB, UserBad = _user_classes()
        model = {"user": {}, "R_default": s["defaults"]["R"][0]["R"], "K_default": s["defaults"]["K"][0]["R"]}
        Resistor = s["default_elements"]["R"]
        KKRC = s["default_elements"]["K"]
        try:
            check_registry(eng, reg, model, "initial")
            for step in range(length):
                op = OPS[eng.choice(len(OPS), "step%d.op" % step)]
                before = (dict(reg._ELEMENTS), dict(reg._PRIVATE_ELEMENTS))
                if op in ("register_valid", "register_second", "register_inconsistent", "register_duplicate_symbol", "register_private_builtin_symbol", "register_invalid_symbol"):
                    private = eng.choice(2, "step%d.private" % step) == 1
                    cls, symbol, eq = {"register_valid": (UserA, "U", "R"), "register_second": (UserB, "V", "R"),
                                       "register_inconsistent": (UserBad, "V", "R"), "register_duplicate_symbol": (UserB, "R", "R"),
                                       "register_private_builtin_symbol": (UserB, "K", "R"),        # K: a built-in hidden from the public view
                                       "register_invalid_symbol": (UserB, "u1", "R")}[op]
                    ok, res = call(reg.register_element, _definition(reg, cls, symbol, eq), private=private)
                    valid = op in ("register_valid", "register_second") and not (symbol in model["user"] and model["user"][symbol][0] is not cls)
                    eng.check(ok == valid, "registration accepted iff the definition is valid", lambda: "%s -> ok=%r (%r)" % (op, ok, res))
                    if ok:
                        was_private = model["user"].get(symbol, (None, False))[1]
                        model["user"][symbol] = (cls, private or was_private)
                    else:
                        eng.check((dict(reg._ELEMENTS), dict(reg._PRIVATE_ELEMENTS)) == before, "a refused registration leaves the registry unchanged")
                elif op == "remove":
                    which = (UserA, UserB, Resistor)[eng.choice(3, "step%d.which" % step)]
                    ok, res = call(reg.remove_elements, which)
                    if which is Resistor:
                        eng.check(not ok, "built-ins cannot be removed", lambda: "remove_elements(Resistor) succeeded")
                    else:
                        eng.check(ok, "removing a user class succeeds", lambda: "%r" % (res,))
                        for k in [k for k, (c, p) in model["user"].items() if c is which][:1]:
                            del model["user"][k]
                elif op in ("reset_all", "reset_elements_only", "reset_defaults_only"):
                    el, dp = {"reset_all": (True, True), "reset_elements_only": (True, False), "reset_defaults_only": (False, True)}[op]
                    reg.reset(elements=el, default_parameters=dp)
                    if el:
                        model["user"] = {}
                    if dp:
                        model["R_default"] = s["defaults"]["R"][0]["R"]
                        model["K_default"] = s["defaults"]["K"][0]["R"]
                elif op == "set_default":
                    v = eng.real("step%d.value" % step)
                    if eng.choice(2, "step%d.private_builtin" % step) == 1:
                        KKRC.set_default_values(R=v)
                        model["K_default"] = v
                    else:
                        Resistor.set_default_values(R=v)
                        model["R_default"] = v
                elif op == "set_default_unknown_key":
                    # a key that is not a parameter of the class -- for a container also the name of one of its sub-circuits -- is refused
                    # and leaves the class defaults alone (check_registry compares every built-in's defaults with the snapshot)
                    cls, key = ((Resistor, "X"), (s["default_elements"]["Tlm"], "Zeta"), (s["default_elements"]["Tlm"], "X_1"))[eng.choice(3, "step%d.target" % step)]
                    ok, res = call(cls.set_default_values, **{key: 0.5})
                    eng.check((not ok) and isinstance(res, KeyError), "set_default_values refuses a key that is not a parameter", lambda: "%s.%s -> %r" % (cls.__name__, key, res))
                else:
                    reg.reset_default_parameter_values()
                    model["R_default"] = s["defaults"]["R"][0]["R"]
                    model["K_default"] = s["defaults"]["K"][0]["R"]
                check_registry(eng, reg, model, "after step")
            # a final full reset: exactly as freshly imported
            reg.reset()
            model = {"user": {}, "R_default": s["defaults"]["R"][0]["R"], "K_default": s["defaults"]["K"][0]["R"]}
            check_registry(eng, reg, model, "after reset")
            # ... including for user symbols registered afterwards
            ok, res = call(reg.register_element, _definition(reg, UserA, "U"))
            eng.check(ok, "after reset a user element can be registered", lambda: "%r" % (res,))
            if ok:
                model["user"]["U"] = (UserA, False)
                check_registry(eng, reg, model, "after reset + register")
            eng.reached("history")
        finally:
            _restore(reg)
    return harness


def obligations(tier: str):
    from sx.runner import Obligation
    import pyimpspec.circuit.registry as reg
    import pyimpspec.circuit.tokenizer as tk
    import pyimpspec.circuit.base as base
    obs = []
    funcs_a = [reg._validate_element_symbol, tk.Tokenizer.main_loop, tk.Tokenizer.identifier_or_label]
    for n in ((1, 2, 3) if tier == "quick" else (1, 2, 3, 4)):
        obs.append(Obligation("symbol.%d" % n, make_symbol_harness(n), bounds="every ASCII string of %d characters" % n, functions=funcs_a,
                              expect_reach=["symbol"]))
        for follow in ("end", "char"):
            obs.append(Obligation("scan.%d.%s" % (n, follow), make_scan_harness(n, follow),
                                  bounds="every symbol [A-Z][a-z0-9_]{%d} followed by %s" % (n - 1, "the end of input" if follow == "end" else "any character outside [a-z0-9_]"),
                                  functions=funcs_a, expect_reach=["scan"]))
    funcs_b = [reg.register_element, reg._initialize_element, reg._set_element_static_information, reg._validate_impedances, reg.get_elements,
               reg.remove_elements, reg.reset, reg.reset_default_parameter_values, base.Element.set_default_values.__func__]
    L = 2 if tier == "quick" else 3
    obs.append(Obligation("history.%d" % L, make_history_harness(L),
                          bounds="every history of %d operations out of %d kinds (register valid/second/inconsistent/duplicate-symbol/symbol of a private built-in/invalid-symbol with "
                                 "private flag, remove, reset x3, set_default_values(symbolic) on Resistor or on the private built-in KramersKronigRC, reset_default_parameter_values), followed by reset() and a "
                                 "registration" % (L, len(OPS)), functions=funcs_b, expect_reach=["history"], max_paths=1000000))
    for o in obs:
        o.replay = o.harness
    return obs


EXPLANATION = (
    "Bounded symbolic execution of the real registry, symbol validation and tokenizer with z3: symbol characters and the changed default "
    "value are solver variables, operation histories are enumerated by solver-driven choices; after every step the registry views, the "
    "built-in definitions/defaults and the parser's behaviour are compared with a dictionary model and the import-time snapshot."
)
ASSUMPTIONS = ["user-defined classes are small resistor-like elements (one consistent, one inconsistent with its equation)",
               "the process-global registry is restored to the import-time snapshot between paths by direct state restoration"]
OUTSIDE = ["definitions that re-register a built-in class under a new symbol", "non-ASCII symbol characters", "histories longer than the bound"]


def replay(obligation: str, witness):
    from sx.concrete import run_concrete
    for tier in replay_tiers():
        for ob in obligations(tier):
            if ob.name == obligation:
                reproduced, msg, _ = run_concrete(ob.harness, witness)
                return reproduced, msg
    raise KeyError(obligation)
