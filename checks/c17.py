"""C17 -- results are reproducible and independent of worker scheduling.

The process pool is replaced by a stub whose `imap_unordered` returns the workers' results in a
*solver-chosen permutation* (every arrival order is explored) and whose `imap`/`map` keep submission
order; the worker functions are deterministic stubs whose pseudo chi-squared values are symbolic and
pairwise distinct.  The real collection / selection code of perform_zhit, fit_circuit and
evaluate_log_F_ext must return the same winner with the same numbers for every arrival order and for
num_procs = 1 vs > 1.  Ties are outside the claim (the order of equal keys is schedule dependent).
"""
from __future__ import annotations

import itertools
from typing import Any, Dict, List

from .common import call, same, is_symbolic, PathAbort, mk_array, replay_tiers
from .c16 import FakeParameters, FakeFit

PROP = "C17"


class _It:
    """what Pool.imap / imap_unordered return: iterable, with next(timeout)"""

    def __init__(self, items):
        self.items = list(items)

    def next(self, timeout=None):
        if not self.items:
            raise StopIteration
        return self.items.pop(0)

    __next__ = next

    def __iter__(self):
        return self


def _perm_pool(eng, tag, window=None):
    """a Pool stand-in; imap_unordered delivers in an arbitrary (explored) order; with `window` = w only one of the w oldest
    pending results can arrive next (w workers, chunksize 1)"""
    class FakePool:
        def __init__(self, *a, **k):
            pass

        def __enter__(self):
            return self

        def __exit__(self, *a):
            return False

        def imap_unordered(self, fn, args, chunksize=1):
            res = [fn(a) for a in args]
            out = []
            k = 0
            while res:
                i = eng.choice(len(res) if window is None else min(window, len(res)), "%s.arrival%d" % (tag, k))
                out.append(res.pop(i))
                k += 1
            return _It(out)

        def imap(self, fn, args, chunksize=1):
            return _It([fn(a) for a in args])

        def map(self, fn, args, chunksize=None):
            return [fn(a) for a in args]
    return FakePool


def _distinct_positive(eng, names):
    vals = [eng.real(n, npy=True) for n in names]
    for v in vals:
        eng.assume(v > 0)
    for a, b in itertools.combinations(vals, 2):
        eng.assume(a != b)
    return vals


# --------------------------------------------------------------------------- Z-HIT
def make_zhit_harness():
    def harness(eng):
        import numpy as np
        import pyimpspec.analysis.zhit as zh
        import pyimpspec.analysis.zhit.weights as zw
        import pyimpspec.analysis.zhit.smoothing as zs_
        import pyimpspec.analysis.zhit.interpolation as zi
        import pyimpspec.analysis.zhit.reconstruction as zr
        import pyimpspec.analysis.zhit.offset as zo
        from .c18 import _data
        data = _data(4)
        n = 4
        names = ["akima", "makima", "cubic", "pchip"]
        chi = dict(zip(names, _distinct_positive(eng, ["chi." + x for x in names])))

        class Interp:
            def __call__(self, x):
                return 0.0

            def derivative(self, k):
                return self

        def rc(args):
            return (np.zeros(n), args[3], args[4])

        def ao(args):
            # deterministic function of its arguments: the candidate's chi-squared depends on the interpolation only
            return (chi[args[7]], np.ones(n, dtype=complex) * (1 + names.index(args[7])), args[6], args[7], args[8])
        saved = (zw._generate_weights, zs_._smooth_phase, zi._interpolate_phase, zr._reconstruct, zo._adjust_offset, zr.Pool, zo.Pool)
        zw._generate_weights = lambda log_f, window, center, width: np.ones(n)
        zs_._smooth_phase = lambda smoothing, a, b, c, ln_omega, phase: phase
        zi._interpolate_phase = lambda interpolation, ln_omega, phase: Interp()
        zr._reconstruct, zo._adjust_offset = rc, ao
        results = []
        try:
            for procs, tag in ((1, "serial"), (4, "parallel")):
                zr.Pool = _perm_pool(eng, tag + ".rec")
                zo.Pool = _perm_pool(eng, tag + ".off")
                results.append(zh.perform_zhit(data, smoothing="none", interpolation="auto", window="boxcar", num_procs=procs))
        finally:
            zw._generate_weights, zs_._smooth_phase, zi._interpolate_phase, zr._reconstruct, zo._adjust_offset, zr.Pool, zo.Pool = saved
        a, b = results
        best = None
        for nm in names:
            if all(bool(chi[nm] <= chi[o]) for o in names):
                best = nm
        eng.check(a.interpolation == best and b.interpolation == best, "zhit:the candidate with the smallest pseudo chi-squared wins for every arrival order",
                  lambda: "serial %s, parallel %s, smallest %s" % (a.interpolation, b.interpolation, best))
        eng.check(bool(same(a.pseudo_chisqr, b.pseudo_chisqr)) and list(a.impedances) == list(b.impedances), "zhit:serial and parallel runs return the same numbers")
        eng.reached("zhit")
    return harness


# --------------------------------------------------------------------------- fit_circuit
def make_fit_harness(n_methods: int):
    def harness(eng):
        import pyimpspec.analysis.fitting as fit
        from pyimpspec import parse_cdc
        from sx import symnp
        from .c18 import _data
        data = _data(4)
        methods = ["leastsq", "nelder", "powell"][:n_methods]
        chis = dict(zip(methods, _distinct_positive(eng, ["chi." + m for m in methods])))
        okflag = {m: (eng.choice(2, "ok." + m) == 1) for m in methods}
        # log is monotone: instantiate on the atoms the sort key will use
        if eng.symbolic:
            logs = {m: symnp.log10(chis[m]) for m in methods}
            for a, b in itertools.permutations(methods, 2):      # strictly monotone, both directions
                eng.axiom(((chis[a] < chis[b]).term) == ((logs[a] < logs[b]).term))

        def worker(args):
            circuit, f, Z, method, weight, max_nfev, auto, ce, cv = args
            c = parse_cdc("R{R=%d}" % (100 + methods.index(method)))
            if not okflag[method]:
                return (c, float("inf"), None, method, weight, "failed")
            ff = FakeFit(FakeParameters())
            return (c, chis[method], ff, method, weight, "")
        saved = (fit._fit_process, fit.Pool, fit._extract_parameters)
        fit._fit_process = worker
        fit._extract_parameters = lambda circuit, f: {}
        out = []
        try:
            for procs, tag in ((1, "serial"), (3, "parallel")):
                fit.Pool = _perm_pool(eng, tag)
                out.append(call(fit.fit_circuit, parse_cdc("R"), data, method=list(methods), weight="boukamp", num_procs=procs))
        finally:
            fit._fit_process, fit.Pool, fit._extract_parameters = saved
        good = [m for m in methods if okflag[m]]
        (ok1, r1), (ok2, r2) = out
        if not good:
            from pyimpspec.exceptions import FittingError
            eng.check((not ok1) and (not ok2) and isinstance(r1, FittingError), "fit:all fits failed -> FittingError")
            eng.reached("fit")
            return
        eng.check(ok1 and ok2, "fit:completes", lambda: "%r / %r" % (r1, r2))
        if not (ok1 and ok2):
            return
        best = [m for m in good if all(bool(chis[m] <= chis[o]) for o in good)][0]
        eng.check(r1.method == best and r2.method == best, "fit:the successful fit with the smallest pseudo chi-squared wins, serially and in parallel",
                  lambda: "serial %s parallel %s smallest %s" % (r1.method, r2.method, best))
        eng.check(bool(same(r1.pseudo_chisqr, r2.pseudo_chisqr)) and r1.circuit.to_string(3) == r2.circuit.to_string(3), "fit:same numbers serially and in parallel")
        eng.reached("fit")
    return harness


# --------------------------------------------------------------------------- fit_circuit with the real worker
def _pickling_pool():
    """Pool stand-in for the multi-process route: every task is pickled to a worker (= the worker sees a deep copy of its
    arguments, the results come back as copies), imap keeps submission order"""
    import copy

    class PicklingPool:
        def __init__(self, *a, **k):
            pass

        def __enter__(self):
            return self

        def __exit__(self, *a):
            return False

        def imap(self, fn, args, chunksize=1):
            items = [copy.deepcopy(fn(copy.deepcopy(a))) for a in args]

            class It:
                def next(self, timeout=None):
                    if not items:
                        raise StopIteration
                    return items.pop(0)
            return It()
    return PicklingPool


def make_real_fit_harness(methods):
    """the real _fit_process run for several methods, once in the calling process (num_procs=1) and once through a pool that
    pickles every task: same winner, same numbers, and the numbers belong to the winner"""
    def harness(eng):
        import lmfit
        import pyimpspec.analysis.fitting as fit
        from pyimpspec import parse_cdc
        from . import c08
        d, fs, zs, unmasked = c08.make_data(eng, 3, 1, concrete=True)
        circuit = parse_cdc("R")
        r = circuit.get_elements()[0]
        v0 = eng.real("start")
        r._set_limits({"R": float("-inf")}, {"R": float("inf")})
        r.set_values(R=v0)
        fitted = dict(zip(methods, _distinct_positive(eng, ["fitted." + m for m in methods])))   # what each method converges to

        def minimize(fn, params, method=None, args=(), max_nfev=None, **kw):
            for nm, p in params.items():
                if p.vary:
                    p.value = fitted[method]
            fn(params, *args)
            f = FakeFit(params)
            f.ndata, f.chisqr = 2 * len(args[1]), 1.0
            return f
        saved = (lmfit.minimize, lmfit.Parameters, fit.Pool)
        lmfit.minimize, lmfit.Parameters = minimize, FakeParameters
        out = []
        try:
            for procs in (1, 2):
                fit.Pool = _pickling_pool()
                out.append(call(fit.fit_circuit, circuit, d, method=list(methods), weight="boukamp", num_procs=procs))
        finally:
            lmfit.minimize, lmfit.Parameters, fit.Pool = saved
        (ok1, r1), (ok2, r2) = out
        eng.check(ok1 and ok2, "realfit:completes", lambda: "%r / %r" % (r1, r2))
        if not (ok1 and ok2):
            return
        eng.check(r1.method == r2.method, "realfit:the same method wins serially and in parallel", lambda: "%s vs %s" % (r1.method, r2.method))
        eng.check(bool(same(r1.pseudo_chisqr, r2.pseudo_chisqr)), "realfit:same pseudo chi-squared serially and in parallel")
        for res, tag in ((r1, "serial"), (r2, "parallel")):
            got = res.circuit.get_elements()[0].get_values()["R"]
            eng.check(bool(same(got, fitted[res.method])), "realfit:the returned circuit holds the winning method's values (%s)" % tag,
                      lambda: "%s: %r vs %r" % (res.method, got, fitted[res.method]))
        a = r1.circuit.get_elements()[0].get_values()["R"]
        b = r2.circuit.get_elements()[0].get_values()["R"]
        eng.check(bool(same(a, b)), "realfit:same fitted values serially and in parallel")
        for z1, z2 in zip(list(r1.impedances.flat), list(r2.impedances.flat)):
            eng.check(bool(same(z1, z2)), "realfit:same model impedances serially and in parallel")
        eng.reached("realfit")
    return harness


# --------------------------------------------------------------------------- KK cnls: automatic num_RC limiting
def make_cnls_harness(n_rc: int, window: int):
    """_use_cnls stops early once the last five fits fall below a threshold taken from the first five: the fits it returns must
    not depend on the order in which the workers finish"""
    def harness(eng):
        import numpy as np
        import pyimpspec.analysis.kramers_kronig.exploratory as ex
        from pyimpspec import parse_cdc
        from .c18 import _data
        data = _data(4)
        f, Z = data.get_frequencies(), data.get_impedances()
        # sum |tau/R| of the fitted circuit falls strictly with num_RC (symbolic values): the early stop triggers
        taus = [eng.real("tau%d" % k) for k in range(n_rc)]
        for k, t in enumerate(taus):
            eng.assume(t > 0)
            if k:
                eng.assume(taus[k - 1] > t)

        def kernel(args):
            c = parse_cdc("K{R=1}")
            c.get_elements()[0].set_values(tau=taus[args[3] - 1])
            return (args[3], c)
        saved = (ex._cnls_test, ex.Pool)
        ex._cnls_test = kernel
        out = []
        try:
            for procs, tag in ((1, "serial"), (window, "parallel")):
                ex.Pool = _perm_pool(eng, tag, window=None if procs == 1 else window)
                if procs == 1:
                    ex.Pool = _perm_pool(eng, tag, window=1)
                out.append(call(ex._use_cnls, f, Z, np.ones(len(f)), True, list(range(1, n_rc + 1)), False, False, False, 0.0, "leastsq", 10, procs, 0, None))
        finally:
            ex._cnls_test, ex.Pool = saved
        (ok1, a), (ok2, b) = out
        eng.check(ok1 and ok2, "cnls:completes", lambda: "%r / %r" % (a, b))
        if not (ok1 and ok2):
            return
        eng.check(list(a.num_RCs) == list(b.num_RCs), "cnls:the same fits are returned for every arrival order", lambda: "%r vs %r" % (list(a.num_RCs), list(b.num_RCs)))
        eng.check(len(a.num_RCs) < n_rc, "cnls:the automatic limit stops early in this scenario")
        eng.reached("cnls")
    return harness


# --------------------------------------------------------------------------- Z-HIT offset stage with the real worker
def make_real_offset_harness(n: int):
    """the real _adjust_offset run over two weight windows for one reconstruction, in the calling process and through a pool that
    pickles every task: the same candidates with the same numbers.  The offset fit is a deterministic function of its inputs
    (uninterpreted under the engine, the real lmfit fit in replays)."""
    def harness(eng):
        import pyimpspec.analysis.zhit.offset as zo
        from sx.values import uf
        from sx import symnp
        eng.div_zero_policy = "assume"
        rec = [eng.real("rec%d" % i, npy=True) for i in range(n)]
        lnm = [eng.real("lnm%d" % i, npy=True) for i in range(n)]
        phase = [eng.real("phase%d" % i, npy=True) for i in range(n)]
        X = [(4 + 0j, -2j, 8j, -16 + 0j)[i] for i in range(n)]      # concrete data (exact in binary): the sort by pseudo chi-squared stays decidable
        windows = {}
        for w in ("a", "b"):
            ws = [eng.real("w%s%d" % (w, i), npy=True) for i in range(n)]
            for v in ws:
                eng.assume(v > 0)
            windows[w] = ws

        def offset_of(ln_fit, ln_exp, weights):
            return uf("offset_fit", list(ln_fit.flat) + list(ln_exp.flat) + list(weights.flat), real_result=True)

        def rect(mod, ph):
            return mk_array(eng, [r * uf("cis", [p]) for r, p in zip(mod, ph)], complex)

        class Prog:
            def set_message(self, *a, **k):
                pass

            def increment(self, *a, **k):
                pass
        def chisqr(Z_exp=None, Z_fit=None, **kw):
            # a deterministic function of the two spectra (its formula is the subject of C08/C09); keeps the final sort decidable
            return uf("chisqr", list(Z_exp.flat) + list(Z_fit.flat), real_result=True)
        saved = (zo._calculate_modulus_offset, zo.rect, zo.Pool, zo._calculate_pseudo_chisqr)
        if eng.symbolic:
            zo._calculate_modulus_offset, zo.rect, zo._calculate_pseudo_chisqr = offset_of, rect, chisqr
        out = []
        try:
            for procs in (1, 2):
                zo.Pool = _pickling_unordered_pool(eng, "offset")
                recon = [(mk_array(eng, rec), mk_array(eng, phase), "none", "akima")]
                wopts = {k: mk_array(eng, v) for k, v in windows.items()}
                out.append(call(zo._adjust_modulus_offset, recon, wopts, mk_array(eng, lnm), mk_array(eng, X, complex), False, procs, Prog()))
        finally:
            zo._calculate_modulus_offset, zo.rect, zo.Pool, zo._calculate_pseudo_chisqr = saved
        (ok1, a), (ok2, b) = out
        eng.check(ok1 and ok2, "realoffset:completes", lambda: "%r / %r" % (a, b))
        if not (ok1 and ok2):
            return
        A = {r[4]: r for r in a}
        B = {r[4]: r for r in b}
        eng.check(sorted(A) == sorted(B) == ["a", "b"], "realoffset:one candidate per window")
        for w in sorted(set(A) & set(B)):
            eng.check(bool(same(A[w][0], B[w][0])), "realoffset:same pseudo chi-squared serially and in parallel", lambda: "window %s: %r vs %r" % (w, A[w][0], B[w][0]))
            for x, y in zip(list(A[w][1].flat), list(B[w][1].flat)):
                eng.check(bool(same(x, y)), "realoffset:same reconstructed spectrum serially and in parallel", lambda: "window %s" % w)
        eng.reached("realoffset")
    return harness


def _pickling_unordered_pool(eng, tag):
    import copy

    class P:
        def __init__(self, *a, **k):
            pass

        def __enter__(self):
            return self

        def __exit__(self, *a):
            return False

        def imap_unordered(self, fn, args, chunksize=1):
            res = [copy.deepcopy(fn(copy.deepcopy(a))) for a in args]
            out = []
            k = 0
            while res:
                out.append(res.pop(eng.choice(len(res), "%s.arrival%d" % (tag, k))))
                k += 1
            return _It(out)
    return P


# --------------------------------------------------------------------------- mock data: seeding
def make_seed_harness():
    """_add_noise seeds its generator with a deterministic function of the seed for every integer seed (0 and negative ones
    included), and only an absent seed leaves the generator unseeded"""
    def harness(eng):
        import numpy as np
        import pyimpspec.mock_data as md
        from pyimpspec.data.data_set import DataSet
        seed = eng.integer("seed")
        made = []

        class RS:
            def __init__(self, seed=None):
                made.append(seed)

            def normal(self, loc, scale):
                return np.zeros(len(scale))
        saved = md.RandomState
        md.RandomState = RS
        try:
            d = DataSet([10.0, 1.0], [1 + 1j, 2 - 1j])
            ok, res = call(md._add_noise, d, 1.0, seed)
            ok2, res2 = call(md._add_noise, d, 1.0, None)
        finally:
            md.RandomState = saved
        eng.check(ok and ok2, "seed:noise can be added", lambda: "%r / %r" % (res, res2))
        if not (ok and ok2):
            return
        eng.check(len(made) == 2 and made[1] is None, "seed:no seed leaves the generator unseeded")
        got = made[0]
        eng.check(got is not None, "seed:an integer seed always seeds the generator", lambda: "seed %r -> RandomState(seed=None)" % (seed,))
        if got is not None:
            want = seed % (2 ** 32)
            eng.check(bool(same(got, want)) if is_symbolic(got) or is_symbolic(want) else int(got) == int(want), "seed:the generator is seeded with seed mod 2**32",
                      lambda: "%r vs %r" % (got, want))
        eng.reached("seed")
    return harness


# --------------------------------------------------------------------------- KK extension search
def make_kk_harness():
    def harness(eng):
        import numpy as np
        import pyimpspec.analysis.kramers_kronig.exploratory as ex
        from pyimpspec import parse_cdc
        from .c18 import _data
        data = _data(6)
        dummy = parse_cdc("R{R=100}")

        def kernel(args):
            return (args[4], dummy)
        stat_calls = []

        def statistic(fits, f, test, target_num_RC):
            # deterministic function of log_F_ext
            return float(abs(fits.log_F_ext - 0.25))
        saved = (ex._leastsq_test, ex._estimate_target_num_RC, ex._calculate_statistic, ex._fit_cubic_and_interpolate, ex._pick_minimum, ex.Pool)
        ex._leastsq_test = kernel
        ex._estimate_target_num_RC = lambda b: 4
        ex._calculate_statistic = statistic
        ex._fit_cubic_and_interpolate = lambda x, y: (np.array(x, dtype=float), np.array(y, dtype=float))
        ex._pick_minimum = lambda x, y, xi, yi: float(x[int(np.argmin(y))])
        out = []
        try:
            import matplotlib
            for procs, tag in ((1, "serial"), (3, "parallel")):
                ex.Pool = _perm_pool(eng, tag)
                out.append(ex.evaluate_log_F_ext(data, test="complex", num_F_ext_evaluations=10, num_procs=procs))
        finally:
            ex._leastsq_test, ex._estimate_target_num_RC, ex._calculate_statistic, ex._fit_cubic_and_interpolate, ex._pick_minimum, ex.Pool = saved
        a, b = out
        eng.check([(x[0], x[2]) for x in a] == [(x[0], x[2]) for x in b], "kk:the same extensions with the same statistics, in the same order, serially and in parallel",
                  lambda: "%r vs %r" % ([(x[0], x[2]) for x in a][:3], [(x[0], x[2]) for x in b][:3]))
        eng.check(a[0][2] == min(x[2] for x in a), "kk:the first entry is the best extension")
        eng.reached("kk")
    return harness


def obligations(tier: str):
    from sx.runner import Obligation
    import pyimpspec.analysis.zhit as zh
    import pyimpspec.analysis.zhit.reconstruction as zr
    import pyimpspec.analysis.zhit.offset as zo
    import pyimpspec.analysis.fitting as fit
    import pyimpspec.analysis.kramers_kronig.exploratory as ex
    stubs = ["multiprocessing.Pool: imap_unordered returns a solver-chosen permutation of the results, imap/map keep submission order",
             "worker functions are deterministic stubs; pseudo chi-squared values symbolic, positive and pairwise distinct; log is monotone on them"]
    obs = [
        Obligation("zhit", make_zhit_harness(), bounds="perform_zhit with 4 interpolation candidates: every arrival order in both unordered stages, num_procs 1 vs 4",
                   functions=[zh.perform_zhit, zr._reconstruct_modulus_data, zo._adjust_modulus_offset], stubs=stubs, expect_reach=["zhit"], max_paths=2000000),
        Obligation("fit", make_fit_harness(3), bounds="fit_circuit with 3 methods, each succeeding or failing, num_procs 1 vs 3",
                   functions=[fit.fit_circuit], stubs=stubs, expect_reach=["fit"], max_paths=2000000),
        Obligation("kk", make_kk_harness(), bounds="evaluate_log_F_ext with 10 extension evaluations, num_procs 1 vs 3",
                   functions=[ex.evaluate_log_F_ext, ex._evaluate_log_F_ext_using_custom_approach], stubs=stubs, expect_reach=["kk"], max_paths=2000000),
    ]
    n_rc, win = (13, 2) if tier == "quick" else (14, 3)
    obs.append(Obligation("cnls", make_cnls_harness(n_rc, win), bounds="_use_cnls with automatic num_RC limiting, num_RC 1..%d, %d workers (a result can be overtaken by at most %d later "
                          "ones); the fitted sum |tau/R| falls strictly with num_RC (symbolic values)" % (n_rc, win, win - 1),
                          functions=[ex._use_cnls], stubs=stubs + ["_cnls_test returns a circuit whose time constant is a symbolic, strictly decreasing function of num_RC"],
                          expect_reach=["cnls"], max_paths=2000000))
    import pyimpspec.mock_data as md
    obs.append(Obligation("realoffset", make_real_offset_harness(2 if tier == "quick" else 3), bounds="_adjust_modulus_offset with the real _adjust_offset: one reconstruction x two weight windows, "
                          "%d points (symbolic reconstruction, phase, weights; concrete data), num_procs 1 (in-process) vs 2 (every task pickled, any arrival order)" % (2 if tier == "quick" else 3),
                          functions=[zo._adjust_modulus_offset, zo._adjust_offset], stubs=stubs + ["the offset fit is an uninterpreted deterministic function of its inputs; "
                                                                                                     "rect(r, phi) = r * cis(phi); the pseudo chi-squared is an uninterpreted deterministic function of the two spectra; "
                                                                                                     "tasks sent to a pool are deep copies"],
                          expect_reach=["realoffset"], mode="fresh"))
    obs.append(Obligation("seed", make_seed_harness(), bounds="_add_noise for every integer seed (symbolic) and for no seed", functions=[md._add_noise],
                          stubs=["numpy.random.RandomState is a recorder (its bit streams are outside)"], expect_reach=["seed"]))
    ms = ("leastsq", "nelder") if tier == "quick" else ("leastsq", "nelder", "powell")
    obs.append(Obligation("realfit", make_real_fit_harness(ms), bounds="fit_circuit(R) with the real _fit_process, methods %s, num_procs 1 (in-process) vs 2 (every task pickled); "
                          "symbolic start value and per-method fitted values, 3 unmasked + 1 masked concrete points" % "/".join(ms),
                          functions=[fit.fit_circuit, fit._fit_process, fit._from_lmfit, fit._to_lmfit, fit._residual, fit._convert_intermediate_result],
                          stubs=stubs + ["lmfit.minimize: each method converges to its own symbolic value; tasks sent to a pool are deep copies (pickling)",
                                         "log10 is strictly increasing (sort key)"],
                          expect_reach=["realfit"], mode="fresh"))
    for o in obs:
        o.replay = o.harness
    return obs


EXPLANATION = (
    "Schedules as solver variables: the process pool is a stub whose unordered delivery is a permutation chosen by solver-driven exploration (every "
    "arrival order is a path), candidate scores are symbolic and pairwise distinct; z3 decides on every path whether the real collection and "
    "selection code can return a different winner or different numbers than the serial run."
)
ASSUMPTIONS = ["worker functions are deterministic functions of their arguments", "sort keys are pairwise distinct (ties are schedule dependent and outside the claim)",
               "Pool.imap / Pool.map deliver in submission order (their documented contract)"]
OUTSIDE = ["real process scheduling and BLAS threading", "the bit streams of numpy's RandomState (that equal seeds give equal streams is numpy's contract)", "the cnls timeout path (wall-clock dependent by design)"]


def replay(obligation: str, witness):
    from sx.concrete import run_concrete
    for tier in replay_tiers():
        for ob in obligations(tier):
            if ob.name == obligation:
                reproduced, msg, _ = run_concrete(ob.harness, witness)
                return reproduced, msg
    raise KeyError(obligation)
