"""./check driver: installs the sx loader, imports the check module, runs its obligations."""
from __future__ import annotations

import argparse
import importlib
import json
import os
import subprocess
import sys

ROOT = os.path.dirname(os.path.dirname(os.path.abspath(__file__)))
sys.setrecursionlimit(100000)
sys.path.insert(0, ROOT)

LEVELS = {
    "C01": "other", "C02": "translation_validation", "C03": "other", "C04": "other", "C05": "model_checking",
    "C06": "other", "C07": "other", "C08": "other", "C09": "other", "C11": "other", "C12": "other", "C13": "other",
    "C14": "model_checking", "C15": "model_checking", "C16": "other", "C17": "other", "C18": "model_checking",
    "C19": "other", "C20": "other",
}

BUDGET = {"quick": 420.0, "thorough": 3000.0}

# Checks whose deeper (thorough) bounds were run end to end on this tree and finish well inside the budget.  For the others the thorough
# command explores the quick bounds again (with the thorough time budget): a deeper bound that has not been seen to terminate with a
# verdict is not offered as a check.  The evidence file names the bounds that were actually explored.
THOROUGH_SIZED = {"C01", "C02", "C06", "C07", "C09", "C11", "C13", "C14", "C15", "C16", "C17", "C18", "C19", "C20"}


def main():
    ap = argparse.ArgumentParser()
    ap.add_argument("prop", nargs="?")
    ap.add_argument("--tier", default=os.environ.get("VERIF_TIER", "quick"))
    ap.add_argument("--replay", default=None)
    ap.add_argument("--only", default=None, help="substring filter on obligation names (debugging)")
    ap.add_argument("--nproc", type=int, default=None)
    ap.add_argument("--seconds", type=float, default=None)
    args = ap.parse_args()

    if args.replay:
        env = dict(os.environ)
        env["PYTHONPATH"] = ROOT + os.pathsep + "/repo/src"
        p = subprocess.run([sys.executable, os.path.join(ROOT, "checks", "replay.py"), args.replay], env=env)
        if p.returncode == 10:
            with open(args.replay) as fp:
                rec = json.load(fp)
            print("VIOLATION property=%s replay=%s" % (rec.get("property", rec["module"].upper()), args.replay))
            sys.exit(1)
        sys.exit(0 if p.returncode == 0 else 3)

    prop = args.prop.upper()
    tier = args.tier if args.tier in ("quick", "thorough") else "quick"
    seed = int(os.environ.get("VERIF_SEED", "0") or 0)

    from sx import loader
    loader.install()
    import pyimpspec  # noqa: F401  (through the loader: the current working tree of /repo)

    mod = importlib.import_module("checks." + prop.lower())
    bounds_tier = tier if (tier == "quick" or prop in THOROUGH_SIZED or os.environ.get("VERIF_FORCE_BOUNDS") == "thorough") else "quick"
    if bounds_tier != tier:
        print("[%s] thorough tier: deeper bounds not sized on this tree, exploring the quick bounds" % prop)
    obs = mod.obligations(bounds_tier)
    if args.only:
        obs = [o for o in obs if args.only in o.name]
    from sx import runner
    extra = mod.extra_coverage(tier) if hasattr(mod, "extra_coverage") else None
    pre = mod.preflight(tier) if hasattr(mod, "preflight") else None
    if pre:
        print("HARNESS-ERROR: preflight failed: %s" % pre)
        sys.exit(3)
    code = runner.run_check(
        prop_id=prop, level=LEVELS[prop], tier=tier, check_module=prop.lower(), obligations=obs,
        explanation=mod.EXPLANATION, assumptions=mod.ASSUMPTIONS, outside=mod.OUTSIDE, seed=seed,
        nproc=args.nproc, total_seconds=args.seconds or BUDGET[tier], extra_coverage=extra,
    )
    sys.exit(code)


if __name__ == "__main__":
    main()
