"""C05 -- a DataSet keeps frequency, impedance and mask flag of each point together.

The real DataSet code runs on symbolic frequencies (distinct, monotonic, either direction),
symbolic complex impedances, symbolic mask flags and symbolic cut-offs; after construction and
after every step of a bounded operation history the public views are compared with a
list-of-triples reference model.
"""
from __future__ import annotations

import json
from typing import Any, Dict, List

from .common import call, same, is_symbolic, replay_tiers
from sx.values import s_and, s_not

PROP = "C05"


def _lib():
    from pyimpspec.data.data_set import DataSet
    return DataSet


def json_roundtrip(eng, obj):
    """json.loads(json.dumps(obj)): the real thing on concrete values; structurally (keys become
    strings, containers are copied, numbers and booleans unchanged) on symbolic ones."""
    if not eng.symbolic:
        return json.loads(json.dumps(obj))

    def walk(o):
        if isinstance(o, dict):
            return {str(k) if not isinstance(k, bool) else ("true" if k else "false"): walk(v) for k, v in o.items()}
        if isinstance(o, (list, tuple)):
            return [walk(x) for x in o]
        return o
    return walk(obj)


class Pt:
    __slots__ = ("f", "z", "flag")

    def __init__(self, f, z, flag):
        self.f, self.z, self.flag = f, z, flag


def _aslist(arr) -> List[Any]:
    return list(arr.tolist()) if hasattr(arr, "tolist") else list(arr)


def check_views(eng, d, pts: List[Pt], tag: str):
    n = len(pts)
    F = _aslist(d.get_frequencies(masked=None))
    Z = _aslist(d.get_impedances(masked=None))
    M = d.get_mask()
    eng.check(len(F) == n and len(Z) == n and sorted(M.keys()) == list(range(n)) and d.get_num_points(masked=None) == n,
              tag + ":sizes", lambda: "F=%r Z=%r M=%r" % (F, Z, M))
    if not (len(F) == n and len(Z) == n and sorted(M.keys()) == list(range(n))):
        return
    for i in range(n):
        eng.check(same(F[i], pts[i].f), tag + ":frequency", lambda: "i=%d got %r expected %r" % (i, F[i], pts[i].f))
        eng.check(same(Z[i], pts[i].z), tag + ":impedance", lambda: "i=%d got %r expected %r" % (i, Z[i], pts[i].z))
        eng.check(same(M[i], pts[i].flag), tag + ":mask flag", lambda: "i=%d f=%r got %r expected %r" % (i, F[i], M[i], pts[i].flag))
    for i in range(n - 1):
        eng.check(F[i] > F[i + 1], tag + ":descending")
    # masked / unmasked views partition the full view (the comprehension in the real code forks on flags)
    for masked in (False, True):
        Fm = _aslist(d.get_frequencies(masked=masked))
        Zm = _aslist(d.get_impedances(masked=masked))
        exp = [p for p in pts if bool(same(p.flag, masked))]
        eng.check(len(Fm) == len(exp) and len(Zm) == len(exp) and d.get_num_points(masked=masked) == len(exp),
                  tag + ":view size", lambda: "masked=%r got %d expected %d" % (masked, len(Fm), len(exp)))
        if len(Fm) == len(exp) and len(Zm) == len(exp):
            for a, b, p in zip(Fm, Zm, exp):
                eng.check(same(a, p.f), tag + ":view frequency")
                eng.check(same(b, p.z), tag + ":view impedance")


def build(eng, n: int, DataSet, prefix="d"):
    """construct from symbolic monotonic data with a symbolic mask; returns (data set, model points)"""
    F = [eng.real("%s.f%d" % (prefix, i)) for i in range(n)]
    Z = [eng.complex("%s.Z%d" % (prefix, i), npy=False) for i in range(n)]
    asc = eng.choice(2, prefix + ".ascending") == 1 if n > 1 else False
    for i in range(n - 1):
        eng.assume(F[i] < F[i + 1] if asc else F[i] > F[i + 1])
    mask_kind = eng.choice(3, prefix + ".mask.kind")   # 0: None, 1: dict, 2: dict with out-of-range keys
    mask = None
    flags = [False] * n
    if mask_kind > 0:
        mask = {}
        if mask_kind == 2:
            mask[-1] = True
        np_flags = eng.choice(2, prefix + ".mask.numpy_bool") == 1      # flags of type numpy.bool_ (e.g. a mask built from an array comparison)
        for i in range(n):
            if eng.choice(2, "%s.mask.has%d" % (prefix, i)) == 1:
                b = eng.boolean("%s.mask.flag%d" % (prefix, i), npy=np_flags)
                mask[i] = b
                flags[i] = b
        if mask_kind == 2:
            mask[n] = True
    before = None if mask is None else dict(mask)
    ok, d = call(DataSet, list(F), list(Z), mask) if mask is not None else call(DataSet, list(F), list(Z))
    eng.check(ok, "construct:succeeds", lambda: "raised %r" % (d,))
    if not ok:
        return None, None
    if before is not None:
        same_dict = list(mask.keys()) == list(before.keys()) and all(mask[k] is before[k] for k in before)
        eng.check(same_dict, "construct:caller's mask dictionary unchanged", lambda: "before=%r after=%r" % (before, mask))
    pts = [Pt(F[i], Z[i], flags[i]) for i in range(n)]
    if asc:
        pts.reverse()
    return d, pts


OPS = ("set_mask", "low_pass", "high_pass", "subtract", "dict_roundtrip", "dict_twice", "dict_minimal", "duplicate", "average")


def step(eng, DataSet, d, pts: List[Pt], op: str, tag: str):
    n = len(pts)
    if op == "set_mask":
        kind = eng.choice(3, tag + ".kind")
        m: Dict[int, Any] = {}
        if kind == 0:
            pass                      # empty dict: clears the mask
        else:
            if kind == 2:
                m[n + 1] = True
                m[-2] = False
            np_flags = _NP_IN_OPS[0] and eng.choice(2, tag + ".numpy_bool") == 1
            for i in range(n):
                if eng.choice(2, "%s.has%d" % (tag, i)) == 1:
                    m[i] = eng.boolean("%s.flag%d" % (tag, i), npy=np_flags)
        before = dict(m)
        d.set_mask(m)
        eng.check(list(m.keys()) == list(before.keys()) and all(m[k] is before[k] for k in before), "set_mask:caller's dictionary unchanged")
        if not m:
            for p in pts:
                p.flag = False
        else:
            for i in range(n):
                if i in m:
                    pts[i].flag = m[i]
        return d
    if op in ("low_pass", "high_pass"):
        c = eng.real(tag + ".cutoff")
        getattr(d, op)(c)
        for p in pts:
            hit = (p.f > c) if op == "low_pass" else (p.f < c)
            if is_symbolic(p.flag) or is_symbolic(hit):
                from sx.values import s_or
                p.flag = s_or(p.flag, hit)
            else:
                p.flag = bool(p.flag or hit)
        return d
    if op == "subtract":
        from pyimpspec.typing.helpers import _cast_to_complex_array
        one = eng.choice(2, tag + ".scalar") == 1
        vals = [eng.complex("%s.dz%d" % (tag, i), npy=False) for i in range(1 if one else n)]
        d.subtract_impedances(_cast_to_complex_array(vals))
        for i, p in enumerate(pts):
            p.z = p.z - vals[0 if one else i]
        return d
    if op in ("dict_roundtrip", "dict_twice", "dict_minimal"):
        dd = json_roundtrip(eng, d.to_dict())
        if op == "dict_minimal":
            for k in ("version", "mask", "path", "label", "uuid"):
                dd.pop(k, None)
        ok, d2 = call(DataSet.from_dict, dd)
        eng.check(ok, op + ":import succeeds", lambda: "from_dict raised %r" % (d2,))
        if not ok:
            return None
        if op == "dict_twice":
            ok, d3 = call(DataSet.from_dict, dd)
            eng.check(ok, op + ":second import succeeds", lambda: "second from_dict raised %r" % (d3,))
            if not ok:
                return None
            check_views(eng, d2, pts, op + ":first")
            d2 = d3
        if op == "dict_minimal":
            for p in pts:
                p.flag = False
        else:
            eng.check(d2.uuid == d.uuid and d2.get_label() == d.get_label() and d2.get_path() == d.get_path(), op + ":metadata")
        return d2
    if op == "duplicate":
        d2 = DataSet.duplicate(d, label="copy")
        eng.check(d2.uuid != d.uuid and d2.get_label() == "copy", "duplicate:metadata")
        check_views(eng, d, pts, "duplicate:original")
        return d2
    if op == "average":
        d2 = DataSet.duplicate(d)
        vals = [eng.complex("%s.dz%d" % (tag, i), npy=False) for i in range(n)]
        from pyimpspec.typing.helpers import _cast_to_complex_array
        d2.subtract_impedances(_cast_to_complex_array(vals))
        ok, avg = call(DataSet.average, [d, d2])
        eng.check(ok, "average:succeeds", lambda: "raised %r" % (avg,))
        if not ok:
            return None
        check_views(eng, d, pts, "average:input untouched")
        for i, p in enumerate(pts):
            p.z = (p.z + (p.z - vals[i])) / 2
            p.flag = False
        return avg
    raise AssertionError(op)


def make_harness(n: int, history: List[str]):
    def harness(eng):
        DataSet = _lib()
        d, pts = build(eng, n, DataSet)
        if d is None:
            return
        check_views(eng, d, pts, "construct")
        for k, op in enumerate(history):
            d = step(eng, DataSet, d, pts, op, "s%d" % k)
            if d is None:
                return
            check_views(eng, d, pts, op)
    return harness


def make_order_harness(n: int):
    """ascending data + mask omits the same physical points as the same data supplied descending"""
    def harness(eng):
        DataSet = _lib()
        F = [eng.real("f%d" % i) for i in range(n)]
        Z = [eng.complex("Z%d" % i, npy=False) for i in range(n)]
        for i in range(n - 1):
            eng.assume(F[i] < F[i + 1])
        flags = [eng.boolean("flag%d" % i) for i in range(n)]
        m_asc = {i: flags[i] for i in range(n)}
        m_desc = {n - 1 - i: flags[i] for i in range(n)}
        a = DataSet(list(F), list(Z), m_asc)
        b = DataSet(list(reversed(F)), list(reversed(Z)), m_desc)
        ma, mb = a.get_mask(), b.get_mask()
        Fa, Fb = _aslist(a.get_frequencies(masked=None)), _aslist(b.get_frequencies(masked=None))
        for i in range(n):
            eng.check(same(Fa[i], Fb[i]), "order:same frequencies")
            eng.check(same(ma[i], mb[i]), "order:same points masked", lambda: "index %d: %r vs %r" % (i, ma[i], mb[i]))
    return harness


def _key(witness, label):
    asc = witness.get("d.ascending")
    return "%s|ascending=%s|mask.kind=%s" % (label, asc, witness.get("d.mask.kind"))


_NP_IN_OPS = [False]        # numpy.bool_ flags in set_mask steps as well (thorough tier); in construction masks always


def obligations(tier: str):
    _NP_IN_OPS[0] = False        # (numpy.bool_ flags in set_mask steps as well: multiplies the thorough tier beyond an hour; construction masks cover the type)
    from sx.runner import Obligation
    from pyimpspec.data.data_set import DataSet
    funcs = [DataSet.__init__, DataSet.set_mask, DataSet.get_mask, DataSet.get_frequencies, DataSet.get_impedances,
             DataSet.low_pass, DataSet.high_pass, DataSet.subtract_impedances, DataSet.to_dict, DataSet._parse,
             DataSet.from_dict.__func__, DataSet.duplicate.__func__, DataSet.average.__func__, DataSet.get_num_points]
    obs = []
    sizes = (1, 2, 3) if tier == "quick" else (1, 2, 3, 4)
    for n in sizes:
        obs.append(Obligation("construct.n%d" % n, make_harness(n, []), bounds="n=%d points, any monotonic order, any mask" % n,
                              key=_key, functions=funcs, expect_reach=["construct:mask flag"]))
        if n > 1:
            obs.append(Obligation("order.n%d" % n, make_order_harness(n), bounds="n=%d: ascending+mask vs descending+mirrored mask" % n,
                                  key=_key, functions=funcs, expect_reach=["order:same points masked"]))
    hist_n = (2, 3)
    for n in hist_n:
        for op in OPS:
            obs.append(Obligation("n%d.%s" % (n, op), make_harness(n, [op]), bounds="n=%d; construct then %s" % (n, op),
                                  key=_key, functions=funcs, expect_reach=[op + ":mask flag"]))
    n2 = 2
    for op1 in OPS:
        for op2 in OPS:
            if tier == "quick" and op1 in ("dict_twice", "dict_minimal", "average") and op2 in ("dict_twice", "dict_minimal", "average"):
                continue
            obs.append(Obligation("n%d.%s.%s" % (n2, op1, op2), make_harness(n2, [op1, op2]),
                                  bounds="n=%d; construct, %s, %s" % (n2, op1, op2), key=_key, functions=funcs,
                                  expect_reach=[op2 + ":mask flag"]))
    if tier == "thorough":
        for op1 in ("set_mask", "low_pass", "subtract", "dict_roundtrip"):
            for op2 in ("set_mask", "high_pass", "dict_roundtrip", "duplicate"):
                for op3 in ("set_mask", "low_pass", "dict_twice", "average"):
                    obs.append(Obligation("n2.%s.%s.%s" % (op1, op2, op3), make_harness(2, [op1, op2, op3]),
                                          bounds="n=2; construct, %s, %s, %s" % (op1, op2, op3), key=_key, functions=funcs,
                                          expect_reach=[op3 + ":mask flag"]))
    for o in obs:
        o.replay = o.harness
    return obs


EXPLANATION = (
    "Bounded symbolic execution of the real DataSet code with z3: frequencies (distinct, monotonic in either direction), "
    "complex impedances, mask flags, mask key sets and cut-off frequencies are solver variables; construction followed by a "
    "history of operations is executed on every feasible path and after each step z3 decides whether any public view "
    "(full/unmasked/masked frequencies and impedances, mask) can differ from a list-of-triples reference model, whether the "
    "full view can fail to be descending and whether the caller's mask dictionary can change."
)
ASSUMPTIONS = [
    "input frequencies are strictly monotonic (ascending or descending), as the property states",
    "floats are modelled as reals; json round trip = structural copy with stringified keys (the replay uses the real json module)",
    "uuid4 and path/label handling are concrete",
]
OUTSIDE = ["more points / longer histories than the stated bounds", "float formatting in real JSON files", "non-monotonic input"]


def replay(obligation: str, witness):
    from sx.concrete import run_concrete
    for tier in replay_tiers():
        for ob in obligations(tier):
            if ob.name == obligation:
                reproduced, msg, _ = run_concrete(ob.harness, witness)
                return reproduced, msg
    raise KeyError(obligation)
