"""C20 -- symbolic, LaTeX and diagram exports exist for every circuit.

Circuit shapes (direct construction: every series/parallel nest within the bound, incl. connections
with a single item) are enumerated by solver-driven choices; the real to_circuitikz runs with
*symbolic* node_width / node_height > 0 (its layout comparisons become branch conditions), and
to_sympy / to_latex / to_drawing run concretely on every explored shape.  This is bounded exhaustive
enumeration for the shapes; the solver's share is the layout arithmetic.
"""
from __future__ import annotations

import re
from typing import Any, List

from .common import call, same, is_symbolic, PathAbort, replay_tiers

PROP = "C20"


def _classes():
    from pyimpspec.circuit.registry import get_elements
    return get_elements(private=True)


def gen(eng, leaves: int, depth: int, symbols, allow_single_parallel: bool, open_branch: bool = False):
    from pyimpspec.circuit.series import Series
    from pyimpspec.circuit.parallel import Parallel
    classes = _classes()
    count = [0]

    def element(tag):
        if count[0] >= leaves:
            raise PathAbort("leaf budget")
        count[0] += 1
        sym = symbols[eng.choice(len(symbols), tag + ".class")]
        el = classes[sym]()
        if "labelled" not in eng.scratch:
            eng.scratch["labelled"] = eng.choice(3, "labelled")       # none / all / every second element
        mode = eng.scratch["labelled"]
        if mode == 1 or (mode == 2 and count[0] % 2 == 0):
            el.set_label("x%d" % count[0])
        return el

    def con(d, tag):
        kind = eng.choice(2, tag + ".kind")
        lo = 1 if (kind == 0 or allow_single_parallel) else 2
        n = lo + eng.choice(3 - lo + 1, tag + ".n")
        items = []
        for i in range(n):
            if d > 0 and eng.choice(2, "%s.%d.nested" % (tag, i)) == 1:
                items.append(con(d - 1, "%s.%d" % (tag, i)))
            else:
                items.append(element("%s.%d" % (tag, i)))
        if open_branch and kind == 1 and n >= 2 and "opened" not in eng.scratch:
            # an open path: a resistor whose value was set to infinity through the API (the circuit can still be simulated)
            cand = [x for x in items[1:] + items[:1] if type(x).__name__ == "Resistor"]
            if cand and eng.choice(2, tag + ".open") == 1:
                eng.scratch["opened"] = True
                cand[0].set_values(R=float("inf"))
        return (Series if kind == 0 else Parallel)(items)
    return con(depth, "c")


def _single_parallel(con) -> bool:
    from pyimpspec.circuit.base import Connection
    from pyimpspec.circuit.parallel import Parallel
    if isinstance(con, Connection):
        if type(con) is Parallel and len(con._elements) < 2:
            return True
        return any(_single_parallel(k) for k in con._elements)
    return False


def make_harness(leaves: int, depth: int, symbols, allow_single_parallel: bool, drawing: bool, plain: bool = False, open_branch: bool = False):
    def harness(eng):
        if plain:
            eng.scratch["labelled"] = 0
        from pyimpspec.circuit.circuit import Circuit
        import pyimpspec.circuit.diagrams  # noqa: F401  (attaches to_circuitikz / to_drawing)
        con = gen(eng, leaves, depth, symbols, allow_single_parallel, open_branch)
        circuit = Circuit(con)
        if open_branch:
            if "opened" not in eng.scratch:
                raise PathAbort("no open path in this shape")
            ok, z = call(circuit.get_impedances, [10.0, 1.0])
            if not ok:
                raise PathAbort("cannot be simulated")
            eng.reached("open path, simulated")
        eng.note_input("cdc", circuit.to_string())
        nw = eng.real("node_width")
        nh = eng.real("node_height")
        eng.assume(nw > 0)
        eng.assume(nh > 0)
        running = (eng.choice(2, "running") == 1) if not plain else False
        ok, src = call(circuit.to_circuitikz, node_width=nw, node_height=nh, running=running)
        label_ok = "to_circuitikz succeeds" + (" (circuit with a single-item parallel connection)" if _single_parallel(con) else "")
        eng.check(ok, label_ok, lambda: "%s: %r" % (circuit.to_string(), src))
        eng.reached("circuitikz")
        if ok:
            eng.check(src.count("\\begin{circuitikz}") == 1 and src.count("\\end{circuitikz}") == 1 and src.strip().endswith("\\end{circuitikz}"),
                      "balanced begin/end")
            elements = circuit.get_elements(recursive=True)
            comps = re.findall(r"to\[(?:R|capacitor|L|cpe|generic)=\$([^$]*)\$\]", src)
            eng.check(len(comps) == len(elements), "one component per element of the connections",
                      lambda: "%d components for %d elements in %s" % (len(comps), len(elements), circuit.to_string()))
            ids = circuit.generate_element_identifiers(running=running)
            want = sorted("%s_{\\rm %s}" % (e.get_symbol(), e.get_label() or ids[e]) for e in elements)
            eng.check(sorted(comps) == want, "components are named as the circuit names its elements", lambda: "%r vs %r" % (sorted(comps), want))
            for e in elements:
                nm = circuit.get_element_name(e, ids)
                sym, rest = nm.split("_", 1)
                eng.check("%s_{\\rm %s}" % (sym, rest) in comps, "diagram label corresponds to get_element_name", lambda: nm)
        # the other exports run concretely on the same shape
        ok, expr = call(circuit.to_sympy)
        eng.check(ok, "to_sympy succeeds", lambda: "%s: %r" % (circuit.to_string(), expr))
        if ok:
            n_par = sum(len(e.get_values()) for e in circuit._elements._get_elements_recursive())
            free = {str(s) for s in expr.free_symbols} - {"f"}
            eng.check(len(free) == n_par, "one variable per parameter", lambda: "%d variables for %d parameters" % (len(free), n_par))
        ok, sub = call(circuit.to_sympy, substitute=True)
        eng.check(ok, "to_sympy(substitute=True) succeeds", lambda: "%r" % (sub,))
        if ok:
            eng.check({str(s) for s in sub.free_symbols} <= {"f"}, "after substitution only the frequency is free", lambda: "%r" % (sub.free_symbols,))
        ok, tex = call(circuit.to_latex)
        eng.check(ok and isinstance(tex, str) and tex.startswith("Z = "), "to_latex succeeds", lambda: "%r" % (tex,))
        if drawing:
            ok, dr = call(circuit.to_drawing)
            eng.check(ok, "to_drawing succeeds", lambda: "%s: %r" % (circuit.to_string(), dr))
        eng.reached("exports")
    return harness


def _key(witness, label):
    if label == "to_circuitikz succeeds (circuit with a single-item parallel connection)":
        return "parallel connection with a single item (direct construction only)"
    return label


def obligations(tier: str):
    from sx.runner import Obligation
    import pyimpspec.circuit.diagrams.circuitikz as tz
    import pyimpspec.circuit.diagrams.schemdraw as sd
    import pyimpspec.circuit.circuit as cc
    funcs = [tz.to_circuitikz, sd.to_drawing, cc.Circuit.to_sympy, cc.Circuit.to_latex]
    quick = tier == "quick"
    obs = [
        Obligation("shapes", make_harness(3, 1 if quick else 2, ["R"], False, drawing=not quick),
                   bounds="every parser-reachable nest (parallel >= 2 items) of <= %d resistors, depth <= %d, labels none/all/alternating; node_width/node_height symbolic > 0"
                          % (3, 2 if quick else 3), functions=funcs, expect_reach=["circuitikz", "exports"], max_paths=2000000, key=_key),
        Obligation("deep", make_harness(4, 2, ["R"], False, drawing=False, plain=True),
                   bounds="every parser-reachable nest of <= 4 unlabelled resistors with three levels of nesting (e.g. a series inside a parallel ending in a parallel)",
                   functions=funcs, expect_reach=["circuitikz", "exports"], max_paths=2000000, key=_key),
        Obligation("direct", make_harness(2 if quick else 3, 1, ["R", "C"], True, drawing=False),
                   bounds="direct construction incl. connections with a single item, <= %d leaves" % (2 if quick else 3), functions=funcs,
                   expect_reach=["circuitikz", "exports"], max_paths=2000000, key=_key),
        Obligation("types", make_harness(2, 0, sorted(_classes()), False, drawing=not quick),
                   bounds="every registered element type at the leaves of a connection of 1-2 items", functions=funcs,
                   expect_reach=["circuitikz", "exports"], max_paths=2000000, key=_key),
    ]
    obs.append(Obligation("open", make_harness(3, 1, ["R"], False, drawing=False, open_branch=True),
                          bounds="nests of <= 3 resistors, depth <= 2, in which one resistor of a parallel connection has R = inf (an open path; set through the API) "
                                 "and the circuit can still be simulated", functions=funcs, expect_reach=["circuitikz", "exports", "open path, simulated"], max_paths=2000000, key=_key))
    for o in obs:
        o.replay = o.harness
    return obs


EXPLANATION = (
    "Shapes are enumerated exhaustively within the bound by solver-driven choices (bounded exhaustive enumeration); the real to_circuitikz is "
    "executed symbolically with node_width and node_height as positive z3 reals, so every layout comparison is a solver-decided branch; "
    "to_sympy, to_latex and to_drawing are executed concretely on every explored shape."
)
ASSUMPTIONS = ["default parameter values (obligation 'open': one resistor with R = inf); labels 'x<n>' or none"]
OUTSIDE = ["shapes beyond the bound", "custom_labels, terminal labels", "rendering of the returned sources by LaTeX / matplotlib"]


def replay(obligation: str, witness):
    from sx.concrete import run_concrete
    for tier in replay_tiers():
        for ob in obligations(tier):
            if ob.name == obligation:
                reproduced, msg, _ = run_concrete(ob.harness, witness)
                return reproduced, msg
    raise KeyError(obligation)
