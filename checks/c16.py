"""C16 -- element names and identifiers are unique and used consistently.

Circuit trees (shapes, element types, labels chosen by solver-driven exploration) carry one *symbolic*
value per parameter, which acts as a label of its element: wherever a value is reported under a name
(symbolic expression, fit identifiers, fitted-parameter table, parameter data frame) z3 decides whether
it can be anything but the value of the element the name denotes.
"""
from __future__ import annotations

from typing import Any, Dict, List

from .common import call, same, is_symbolic, PathAbort, mk_array, replay_tiers

PROP = "C16"
SYMS = ["R", "C", "L", "K", "Tlm"]
LABELS = ["", "a", " 2"]      # " 2" is refused by set_label (digits only after stripping): the element stays unlabelled


def _classes():
    from pyimpspec.circuit.registry import get_elements
    return get_elements(private=True)


class FakeParam:
    def __init__(self, name, value, vary=True, expr=None, min=None, max=None):
        self.name, self.value, self.vary, self.expr, self.min, self.max = name, value, vary, expr, min, max
        self.stderr = None


class FakeParameters(dict):
    """stand-in for lmfit.Parameters: a name -> parameter mapping with add() and valuesdict()"""

    def add(self, name, value=None, vary=True, min=None, max=None, expr=None, **kw):
        self[name] = FakeParam(name, value, vary, expr, min, max)

    def valuesdict(self):
        return {k: p.value for k, p in self.items()}


class FakeFit:
    def __init__(self, params: FakeParameters, extra_names=()):
        self.params = params
        self.var_names = [k for k, p in params.items() if p.vary] + list(extra_names)


def gen_tree(eng, leaves: int, symbols, vary_fixed: bool = True):
    """a series/parallel nest with <= `leaves` elements; a Tlm leaf carries one nested sub-circuit"""
    from pyimpspec.circuit.series import Series
    from pyimpspec.circuit.parallel import Parallel
    classes = _classes()
    elems: List[Any] = []
    count = [0]

    def new_element(allow_container=True):
        if count[0] >= leaves:
            raise PathAbort("leaf budget")
        count[0] += 1
        opts = symbols if allow_container else [s for s in symbols if s != "Tlm"]
        sym = opts[eng.choice(len(opts), "e%d.class" % len(elems))]
        Class = classes[sym]
        idx = len(elems)
        kw = {}
        if sym == "Tlm":
            elems.append(None)
            inner = [new_element(False) for _ in range(1 + eng.choice(2, "e%d.nsub" % idx))]
            kw = {"X_1": Series(inner), "X_2": Series([]), "Zeta": Parallel([new_element(False), new_element(False)]) if eng.choice(2, "e%d.zeta" % idx) else None}
            if kw["Zeta"] is None:
                kw.pop("Zeta")
        el = Class(**kw)
        lab = LABELS[eng.choice(len(LABELS) if idx < 2 else 2, "e%d.label" % idx)]
        call(el.set_label, lab)
        fixed = bool(eng.choice(2, "e%d.fixed" % idx)) if (vary_fixed and idx < 2) else False
        for key in Class.get_default_values():
            v = eng.real("e%d.%s" % (idx, key))
            el._parameter_lower_limit[key] = float("-inf")
            el._parameter_upper_limit[key] = float("inf")
            el.set_values(**{key: v})
            el.set_fixed(**{key: fixed})
        if sym == "Tlm":
            elems[idx] = el
        else:
            elems.append(el)
        return el

    def con(depth):
        kind = eng.choice(2, "k%d.%d" % (depth, count[0]))
        n = 2 + eng.choice(2, "n%d.%d" % (depth, count[0])) if depth == 0 else 2
        items = []
        for i in range(n):
            if depth == 0 and eng.choice(2, "nest%d.%d" % (i, count[0])) == 1:
                items.append(con(1))
            else:
                items.append(new_element())
        return (Series if kind == 0 else Parallel)(items)
    return con(0)


def all_elements(con) -> List[Any]:
    """reference traversal: every element once, containers' sub-circuits included"""
    from pyimpspec.circuit.base import Connection, Container
    out = []

    def walk(x):
        if isinstance(x, Connection):
            for k in x._elements:
                walk(k)
        else:
            if not any(x is o for o in out):
                out.append(x)
            if isinstance(x, Container):
                for sub in x.get_subcircuits().values():
                    if sub is not None:
                        walk(sub)
    walk(con)
    return out


def make_harness(leaves: int, symbols, with_user_variable: bool):
    def harness(eng):
        import pyimpspec.analysis.fitting as fit
        from pyimpspec.circuit.circuit import Circuit
        import lmfit
        import pandas
        eng.div_zero_policy = "assume"
        con = gen_tree(eng, leaves, symbols)
        circuit = Circuit(con)
        ref = all_elements(circuit._elements)
        N = len(ref)
        # ---- identifiers
        run = circuit.generate_element_identifiers(running=True)
        ext = circuit.generate_element_identifiers(running=False)
        eng.check(len(run) == N and sorted(run.values()) == list(range(N)) and all(any(e is r for r in ref) for e in run),
                  "running identifiers are a bijection onto 0..N-1 over all elements", lambda: "%r" % (sorted(run.values()),))
        eng.check(len(ext) == N and all(any(e is r for r in ref) for e in ext), "every element has a per-type identifier")
        per: Dict[str, List[int]] = {}
        for e, i in ext.items():
            per.setdefault(e.get_symbol(), []).append(i)
        eng.check(all(sorted(v) == list(range(1, len(v) + 1)) for v in per.values()), "per-type counts start at 1 and are gap-free", lambda: "%r" % (per,))
        eng.reached("identifiers")
        # ---- names
        names = {id(e): circuit.get_element_name(e, ext) for e in ext}
        dup_names = len(set(names.values())) != N
        labelled = [(e.get_symbol(), e.get_label()) for e in ext if e.get_label() != ""]
        dup_labels = len(set(labelled)) != len(labelled)
        eng.check(dup_names == dup_labels, "names are unique unless the user assigned duplicate labels",
                  lambda: "names %r, labels %r" % (sorted(names.values()), labelled))
        ok, res = call(fit.validate_circuit, circuit)
        eng.check(ok == (not dup_names), "validate_circuit refuses exactly the circuits with duplicate names", lambda: "names %r -> %r" % (sorted(names.values()), res))
        if dup_names:
            return
        # ---- fit identifiers and the lmfit round trip
        idents = fit.generate_fit_identifiers(circuit)
        flat = [getattr(m, k) if hasattr(m, k) else m[k] for e, m in idents.items() for k in e.get_values()]
        eng.check(len(set(flat)) == len(flat), "fit identifiers are unique", lambda: "%r" % (flat,))
        saved_p = lmfit.Parameters
        lmfit.Parameters = FakeParameters
        try:
            ok, params = call(fit._to_lmfit, idents, {}, {})
            eng.check(ok, "_to_lmfit succeeds", lambda: "%r" % (params,))
            if not ok:
                return
            for e, m in idents.items():
                for key, v in e.get_values().items():
                    nm = m[key] if isinstance(m, dict) else getattr(m, key)
                    p = params[nm]
                    eng.check(same(p.value, v) and p.vary == (not e.is_fixed(key)), "each fit parameter carries its own element's value and fixed flag",
                              lambda: "%s: %r vs %r" % (nm, p.value, v))
            # the optimiser returns new values w_<name> for the varied parameters
            new_vals = {}
            for nm, p in params.items():
                if p.vary:
                    p.value = eng.real("w." + nm)
                new_vals[nm] = p.value
            fit._from_lmfit(params, idents)
            for e, m in idents.items():
                for key in e.get_values():
                    nm = m[key] if isinstance(m, dict) else getattr(m, key)
                    eng.check(same(e.get_value(key), new_vals[nm]), "fitted values are written back to the element their identifier denotes",
                              lambda: "%s" % nm)
            extra = ["k_1", "w_0"] if with_user_variable else []
            ok, table = call(fit._extract_parameters, circuit, FakeFit(params, extra))
            eng.check(ok, "_extract_parameters succeeds", lambda: "%r" % (table,))
            if not ok:
                return
        finally:
            lmfit.Parameters = saved_p
        eng.check(set(table.keys()) == set(names.values()), "the table has one entry per element name")
        for e in ext:
            row = table[names[id(e)]]
            eng.check(set(row.keys()) == set(e.get_values().keys()), "one entry per parameter", lambda: "%s: %r" % (names[id(e)], sorted(row)))
            for key, v in e.get_values().items():
                if key in row:
                    eng.check(same(row[key].value, v), "a value reported under a name is the value of that element's parameter",
                              lambda: "%s.%s: %r vs %r" % (names[id(e)], key, row[key].value, v))
                    eng.check(row[key].fixed == e.is_fixed(key), "fixed flag reported for the right parameter")
        eng.reached("table")
        # ---- data frame
        captured = {}

        class FakeDF:
            @classmethod
            def from_dict(cls, d):
                captured.update(d)
                return d
        res_obj = fit.FitResult(circuit=circuit, parameters=table, minimizer_result=None, frequencies=None, impedances=None, residuals=None,
                                pseudo_chisqr=0.0, method="", weight="")
        saved_df = pandas.DataFrame
        pandas.DataFrame = FakeDF
        try:
            for running in (False, True):
                captured.clear()
                ok, df = call(res_obj.to_parameters_dataframe, running)
                eng.check(ok, "to_parameters_dataframe succeeds", lambda: "%r" % (df,))
                if not ok:
                    continue
                ids = run if running else ext
                rows = list(zip(captured["Element"], captured["Parameter"], captured["Value"]))
                eng.check(len(rows) == sum(len(e.get_values()) for e in ext), "one row per parameter")
                for e in ext:
                    nm = circuit.get_element_name(e, ids)
                    for key, v in e.get_values().items():
                        hit = [r for r in rows if r[0] == nm and r[1] == key]
                        eng.check(len(hit) == 1 and bool(same(hit[0][2], v)), "data frame rows carry the value of the element their name denotes",
                                  lambda: "%s.%s" % (nm, key))
        finally:
            pandas.DataFrame = saved_df
        eng.reached("dataframe")
    return harness


def make_sympy_harness(leaves: int, symbols=("R", "C", "K"), evaluate: bool = True):
    """the symbolic expression's variables denote the right parameters: evaluating the expression with
    each variable bound to its element's symbolic value reproduces the numeric impedance"""
    def harness(eng):
        from pyimpspec.circuit.circuit import Circuit
        from sx.sym import eval_sympy
        eng.div_zero_policy = "assume"
        con = gen_tree(eng, leaves, list(symbols), vary_fixed=False)
        circuit = Circuit(con)
        ext = circuit.generate_element_identifiers(running=False)
        names = {id(e): circuit.get_element_name(e, ext) for e in ext}
        if len(set(names.values())) != len(ext):
            return
        f = eng.real("f", npy=True)
        eng.assume(f > 0)
        ok, expr = call(circuit.to_sympy)
        if not ok:
            # a transmission line whose sub-circuit impedances vanish for the chosen values is refused: degenerate, outside the claim
            eng.check(isinstance(expr, NotImplementedError), "to_sympy only refuses degenerate transmission lines", lambda: "%r" % (expr,))
            eng.reached("sympy")
            return
        env = {}
        run = circuit.generate_element_identifiers(running=True)      # Circuit.to_sympy numbers the variables like the fit identifiers
        for e, i in run.items():
            for key, v in e.get_values().items():
                env["%s_%s" % (key, e.get_label() or i)] = v
        free = {str(s) for s in expr.free_symbols}
        n_par = sum(len(e.get_values()) for e in ext)
        okv = (free - {"f"} == set(env)) and len(env) == n_par
        els = list(ext)
        clash = any(a is not b_ and a.get_symbol() != b_.get_symbol() and a.get_label() != "" and a.get_label() == b_.get_label()
                    and set(a.get_values()) & set(b_.get_values()) for a in els for b_ in els)
        lab = "one variable per parameter, named after its element" + (" (equally labelled elements of different types share a parameter symbol)" if clash else "")
        eng.check(okv, lab, lambda: "%d parameters, variables %r" % (n_par, sorted(free)))
        if not okv:
            return
        if not evaluate:
            eng.reached("sympy")
            return
        env["f"] = f
        zs = eval_sympy(expr, env)
        zn = circuit._elements._impedance(mk_array(eng, [f]))
        if not eng.possible(True):
            raise PathAbort("vacuous")
        eng.check(same(zn.flat[0], zs), "the expression evaluated with each variable bound to its element's value is the circuit impedance")
        sub = circuit.to_sympy(substitute=True) if not eng.symbolic else None
        eng.reached("sympy")
    return harness


def make_encoding_harness():
    """f'{symbol}_{id}' / endswith('_{id}') / rsplit('_', 1): over symbolic identifiers the suffix test selects
    exactly the names built for that identifier (parameter symbols are the registered ones)"""
    def harness(eng):
        classes = _classes()
        symbols = sorted({k for c in classes.values() for k in c.get_default_values()}, key=lambda x: (-x.count("_"), x))[:6]
        i = eng.integer("i", 0, 24)
        j = eng.integer("j", 0, 24)
        a = symbols[eng.choice(len(symbols), "a")]
        ii, jj = int(i), int(j)          # forks over the range: identifiers are small integers
        name = "%s_%d" % (a, jj)
        hit = name.endswith("_%d" % ii)
        eng.check(hit == (ii == jj), "suffix match selects only the names of that identifier", lambda: "%r endswith _%d" % (name, ii))
        base, idt = name.rsplit("_", 1)
        eng.check(base == a and int(idt) == jj, "rsplit recovers the parameter symbol")
        eng.reached("encoding")
    return harness


def _key(witness, label):
    if label == "one variable per parameter, named after its element (equally labelled elements of different types share a parameter symbol)":
        return "same label on elements of different types that share a parameter symbol"
    return label


def make_edit_harness():
    """identifiers and names after a circuit was looked up and then edited in place: every element of the edited circuit has exactly one running
    index 0..N-1 and one per-type count, names stay unique, and the fit identifiers cover every parameter (no identifier may be remembered
    from before the edit)"""
    def harness(eng):
        import pyimpspec.analysis.fitting as fit
        from pyimpspec.circuit.circuit import Circuit
        from pyimpspec.circuit.series import Series
        from pyimpspec.circuit.parallel import Parallel
        classes = _classes()
        R, C = classes["R"], classes["C"]
        inner = Parallel([R(), C()])
        top = Series([R(), inner, C()])
        circuit = Circuit(top)
        for running in (True, False):              # the look-ups before the edit
            circuit.generate_element_identifiers(running=running)
        ok0, _ = call(fit.generate_fit_identifiers, circuit)
        edit = eng.choice(5, "edit")
        if edit == 0:       # replace the first resistor by another instance of the same type (the description code does not change)
            top.pop(0)
            top.insert(0, R())
        elif edit == 1:     # the same inside the nested parallel connection
            inner.pop(1)
            inner.append(C())
        elif edit == 2:
            top.append(R())
        elif edit == 3:
            top.remove(top.get_elements(recursive=False)[-1])
        else:
            top.insert(1, C())
        elements = circuit.get_elements(recursive=True)
        for running in (True, False):
            ok, ids = call(circuit.generate_element_identifiers, running=running)
            eng.check(ok, "edit:identifiers can be generated after an edit", lambda: "%r" % (ids,))
            if not ok:
                continue
            eng.check(set(ids.keys()) == set(elements), "edit:exactly the elements of the edited circuit have identifiers",
                      lambda: "%d identifiers for %d elements" % (len(ids), len(elements)))
            if set(ids.keys()) != set(elements):
                continue
            if running:
                eng.check(sorted(ids.values()) == list(range(len(elements))), "edit:running indices are 0..N-1", lambda: "%r" % (sorted(ids.values()),))
            else:
                for cls in {type(e) for e in elements}:
                    got = sorted(v for e, v in ids.items() if type(e) is cls)
                    eng.check(got == list(range(1, len(got) + 1)), "edit:per-type counts start at 1 and are consecutive", lambda: "%s: %r" % (cls.__name__, got))
            okn, names = call(lambda: [circuit.get_element_name(e, ids) for e in elements])
            eng.check(okn and len(set(names)) == len(elements), "edit:every element has a unique name", lambda: "%r" % (names,))
        okf, fids = call(fit.generate_fit_identifiers, circuit)
        eng.check(okf and set(fids.keys()) == set(elements), "edit:the fit identifiers cover every element of the edited circuit", lambda: "%r" % (fids,))
        oks, expr = call(circuit.to_sympy)
        n_par = sum(len(e.get_values()) for e in elements)
        eng.check(oks and len({str(x) for x in expr.free_symbols} - {"f"}) == n_par, "edit:one variable per parameter in the symbolic expression", lambda: "%r" % (expr,))
        eng.reached("edit")
    return harness


def obligations(tier: str):
    from sx.runner import Obligation
    import pyimpspec.analysis.fitting as fit
    import pyimpspec.circuit.base as base
    import pyimpspec.circuit.circuit as cc
    funcs = [base.Connection._get_elements_recursive, base.Connection.generate_element_identifiers, base.Container.generate_element_identifiers,
             base.Connection.get_element_name, fit.generate_fit_identifiers, fit._to_lmfit, fit._from_lmfit, fit._extract_parameters,
             fit.validate_circuit, fit.FitResult.to_parameters_dataframe, cc.Circuit.to_sympy]
    stubs = ["lmfit.Parameters / MinimizerResult replaced by name->value mappings (add, valuesdict, var_names, params[name].value)",
             "pandas.DataFrame.from_dict replaced by a dictionary capture"]
    obs = []
    lv = 3          # (4 levels multiply the table obligation beyond an hour; the thorough tier widens the element types instead)
    obs.append(Obligation("tables.%d" % lv, make_harness(lv, ["R", "C", "Tlm"] if tier == "quick" else ["R", "C", "Q", "Tlm"], False),
                          bounds="every nest of <= %d elements (depth <= 2; Tlm with nested sub-circuits), labels %r, fixed flags; one symbolic value per parameter" % (lv, LABELS),
                          functions=funcs, stubs=stubs, expect_reach=["identifiers", "table", "dataframe"], max_paths=1500000))
    obs.append(Obligation("tables.uservar", make_harness(2, ["R", "C"], True),
                          bounds="nests of <= 2 elements; the minimiser result additionally lists user constraint variables named k_1 and w_0",
                          functions=funcs, stubs=stubs, expect_reach=["identifiers", "table"], max_paths=1500000))
    obs.append(Obligation("sympy.%d" % lv, make_sympy_harness(3), bounds="nests of <= 3 elements over R, C, K: to_sympy variables vs numeric impedance",
                          functions=funcs, expect_reach=["sympy"], mode="fresh", max_paths=1500000, key=_key))
    obs.append(Obligation("sympy.container", make_sympy_harness(3, ("Tlm", "R"), evaluate=False), bounds="nests of <= 3 elements over Tlm (with nested sub-circuits) and R: the variables "
                          "of to_sympy are exactly one per parameter, named by running identifier or label", functions=funcs + [base.Container.to_sympy], expect_reach=["sympy"], mode="fresh", max_paths=1500000, key=_key))
    obs.append(Obligation("encoding", make_encoding_harness(), bounds="identifiers 0..24 x the six registered parameter symbols with the most underscores", functions=[fit._extract_parameters],
                          expect_reach=["encoding"], max_paths=1500000))
    obs.append(Obligation("edit", make_edit_harness(), bounds="[R (RC) C] looked up, then edited in place in one of five ways (same-type replacement at the top or in the nested connection, "
                          "append, remove, insert), then looked up again", functions=funcs, expect_reach=["edit"]))
    for o in obs:
        o.replay = o.harness
    return obs


EXPLANATION = (
    "Bounded symbolic execution with z3: tree shapes, element types and labels are enumerated by solver-driven choices and every parameter "
    "carries its own symbolic value; identifiers, names, the symbolic expression, the lmfit identifiers, the fitted-parameter table and the "
    "parameter data frame are computed by the real code, and z3 decides whether a value reported under a name can be anything but the "
    "value of the element that name denotes."
)
ASSUMPTIONS = ["lmfit and pandas are replaced by minimal name->value stand-ins", "diagram labels are checked under C20"]
OUTSIDE = ["circuits with more elements than the bound (identifier arithmetic is covered separately for ids up to 24)"]


def replay(obligation: str, witness):
    from sx.concrete import run_concrete
    for tier in replay_tiers():
        for ob in obligations(tier):
            if ob.name == obligation:
                reproduced, msg, _ = run_concrete(ob.harness, witness)
                return reproduced, msg
    raise KeyError(obligation)
