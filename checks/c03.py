"""C03 -- circuit description codes mean one circuit, however they are spelled.

A grammar-directed generator inside the harness owns the *intended* syntax tree.  Shapes, spelling
alternatives and discrete parameter forms are chosen by solver-driven exploration; every number
(value, limit, percentage) is a symbolic real constrained only by the validity predicate.  The code is
rendered to text with distinct sentinel numerals (either by the library's own emitter or by the
harness printer that knows the alternative spellings), tokenised by the real tokenizer, the sentinel
numerals are replaced by the symbolic reals, and the real Parser runs on that token list.  z3 decides
on every path whether the parsed circuit can differ from the intended tree (structure up to merging
of directly nested same-kind connections, element types in order, labels, fixed flags, values,
limits).  Re-serialising the parsed circuit and serialising a deep copy must give the identical text.
"""
from __future__ import annotations

import copy as _copy
import math
from typing import Any, Dict, List, Optional, Tuple

from .common import call, same, is_symbolic, PathAbort, replay_tiers

PROP = "C03"
INF = float("inf")
LABELS = ["", "a", "lbl 1", "R_2"]
# sub-circuit shapes of a container element: single element, series, parallel, and series made of connections only
SUB_SHAPES = ["e", ("S", ("e", "e")), ("P", ("e", "e")), ("S", (("P", ("e", "e")),)), ("S", (("P", ("e", "e")), ("P", ("e", "e")))),
              ("S", ("e", ("P", ("e", "e"))))]


# --------------------------------------------------------------------------- sentinels
class Sentinels:
    """distinct numerals that survive '%.1E' formatting; each stands for one symbolic quantity"""

    def __init__(self):
        self.values: List[float] = []
        self.sym: Dict[float, Any] = {}

    def new(self, symbolic) -> float:
        if not is_symbolic(symbolic):
            return float(symbolic)          # concrete replay: the numeral is the witness value itself
        k = len(self.values)
        mant = 1.1 + 0.1 * (k % 80)
        expo = 2 + (k // 80)
        v = float("%.1fE+%02d" % (mant, expo))
        self.values.append(v)
        self.sym[v] = symbolic
        return v

    def lookup(self, concrete: float):
        for v, s in self.sym.items():
            if abs(v - concrete) <= 1e-9 * abs(v):
                return s
        raise KeyError(concrete)


# --------------------------------------------------------------------------- intended trees
class EL:
    def __init__(self, sym: str):
        self.sym = sym
        self.label = ""
        self.given: Dict[str, Dict[str, Any]] = {}     # key -> {value, fixed, lower, upper} as intended (after defaults)
        self.spec: Dict[str, Dict[str, Any]] = {}      # key -> spelling {form, ...}
        self.subs: Dict[str, Any] = {}                 # key -> "open" | "short" | CON  (only keys that are spelled)
        self.sub_form: Dict[str, str] = {}


class CON:
    def __init__(self, kind: str, items: List[Any]):
        self.kind, self.items = kind, items


def normalise(node, top=False):
    """the circuit the parser is documented to produce: directly nested same-kind connections merge,
    a series connection of one item is that item (except at the top level, which is always a series)"""
    if isinstance(node, EL):
        return node
    items = []
    for it in node.items:
        n = normalise(it)
        if isinstance(n, CON) and n.kind == node.kind:
            items.extend(n.items)
        else:
            items.append(n)
    if node.kind == "S" and len(items) == 1 and not top:
        return items[0]
    out = CON(node.kind, items)
    if top and node.kind != "S":
        return CON("S", [out])
    return out


def _classes():
    from pyimpspec.circuit.registry import get_elements
    return get_elements(private=True)


# --------------------------------------------------------------------------- generator
FORMS = ("omitted", "value", "value_lower", "value_lower_upper", "value_upper", "percent", "inf_limits", "upper_inf", "lower_inf",
         "lower_inf_upper", "lower_upper_inf")


def gen_param(eng, Class, key: str, name: str, forms) -> Tuple[Dict[str, Any], Dict[str, Any]]:
    """choose a spelling for one parameter and the intended result"""
    dv, dl, du, dfx = (Class.get_default_value(key), Class.get_default_lower_limit(key), Class.get_default_upper_limit(key),
                       Class.is_fixed_by_default(key))
    form = forms[eng.choice(len(forms), name + ".form")]
    if form == "omitted":
        return {"form": form}, {"value": dv, "lower": dl, "upper": du, "fixed": dfx}
    v = eng.real(name + ".value")
    fixed = "" if eng.scratch.get("plain") else ("", "F", "f")[eng.choice(3, name + ".fixed")]
    spec = {"form": form, "value": v, "fixed": fixed}
    want = {"value": v, "lower": dl, "upper": du, "fixed": fixed != ""}
    if form == "value":
        pass
    elif form == "value_lower":
        lo = eng.real(name + ".lower")
        eng.assume(lo <= v)
        eng.assume(lo < du)
        spec["lower"] = lo
        want["lower"] = lo
    elif form == "value_lower_upper":
        lo, up = eng.real(name + ".lower"), eng.real(name + ".upper")
        eng.assume(lo <= v)
        eng.assume(v <= up)
        eng.assume(lo < up)
        spec["lower"], spec["upper"] = lo, up
        want["lower"], want["upper"] = lo, up
    elif form == "value_upper":
        up = eng.real(name + ".upper")
        eng.assume(v <= up)
        eng.assume(dl < up)
        spec["upper"] = up
        want["upper"] = up
    elif form == "percent":
        pl, pu = eng.real(name + ".plower"), eng.real(name + ".pupper")
        lo, up = v * pl / 100, v * pu / 100
        eng.assume(lo <= v)
        eng.assume(v <= up)
        eng.assume(lo < up)
        spec["plower"], spec["pupper"] = pl, pu
        want["lower"], want["upper"] = lo, up
    elif form == "inf_limits":
        spec["lower"], spec["upper"] = "inf", "inf"
        want["lower"], want["upper"] = -INF, INF
    elif form == "upper_inf":            # K=v//inf
        spec["upper"] = "inf"
        want["upper"] = INF
    elif form == "lower_inf":            # K=v/inf
        spec["lower"] = "inf"
        want["lower"] = -INF
    elif form == "lower_inf_upper":      # K=v/inf/u
        up = eng.real(name + ".upper")
        eng.assume(v <= up)
        spec["lower"], spec["upper"] = "inf", up
        want["lower"], want["upper"] = -INF, up
    elif form == "lower_upper_inf":      # K=v/l/inf
        lo = eng.real(name + ".lower")
        eng.assume(lo <= v)
        spec["lower"], spec["upper"] = lo, "inf"
        want["lower"], want["upper"] = lo, INF
    # the value has to respect the limits that stay at their defaults only if the parser checks them: it does not
    return spec, want


def gen_element(eng, name: str, symbols, forms, depth: int, budget: List[int], rich: bool) -> EL:
    classes = _classes()
    sym = symbols[eng.choice(len(symbols), name + ".class")]
    Class = classes[sym]
    e = EL(sym)
    if rich and not eng.scratch.get("plain"):
        e.label = LABELS[eng.choice(len(LABELS), name + ".label")]
    for key in Class.get_default_values():
        if rich:
            e.spec[key], e.given[key] = gen_param(eng, Class, key, "%s.%s" % (name, key), forms)
        else:
            e.spec[key], e.given[key] = gen_param(eng, Class, key, "%s.%s" % (name, key), ("omitted",))
    if hasattr(Class, "get_default_subcircuits") and Class.get_default_subcircuits():
        keys = sorted(Class.get_default_subcircuits())
        for pos, key in enumerate(keys[:2] if depth > 0 else []):
            nopt = 3 + 2 * len(SUB_SHAPES) if pos == 0 else 3
            k = eng.choice(nopt, "%s.%s.sub" % (name, key))
            if k == 0:
                continue                      # not spelled: default sub-circuit
            if k == 1:
                e.subs[key], e.sub_form[key] = "open", ("open", "inf")[eng.choice(2, "%s.%s.word" % (name, key))]
            elif k == 2:
                e.subs[key], e.sub_form[key] = "short", ("short", "zero")[eng.choice(2, "%s.%s.word" % (name, key))]
            else:
                shape = SUB_SHAPES[(k - 3) // 2]

                def mk(sh):
                    if sh == "e":
                        if budget[0] <= 0:
                            raise PathAbort("leaf budget")
                        budget[0] -= 1
                        x = EL("R")
                        x.spec["R"], x.given["R"] = gen_param(eng, classes["R"], "R", "sub", ("omitted",))
                        return x
                    return CON(sh[0], [mk(c) for c in sh[1]])
                sub = mk(shape)
                if isinstance(sub, EL):
                    sub = CON("S", [sub])
                e.subs[key] = sub
                e.sub_form[key] = "bracket" if (k - 3) % 2 == 0 else "bare"
    return e


def gen_connection(eng, name: str, symbols, forms, depth: int, budget: List[int], rich: bool, allow_element=False):
    """a connection with 1..3 items (parallel: >= 2)"""
    kind = ("S", "P")[eng.choice(2, name + ".kind")]
    n = (1 if kind == "S" else 2) + eng.choice(2, name + ".n")
    items = []
    for i in range(n):
        nested = depth > 0 and eng.choice(2, "%s.%d.nested" % (name, i)) == 1
        if nested:
            items.append(gen_connection(eng, "%s.%d" % (name, i), symbols, forms, depth - 1, budget, rich))
        else:
            if budget[0] <= 0:
                raise PathAbort("leaf budget")
            budget[0] -= 1
            items.append(gen_element(eng, "%s.%d" % (name, i), symbols, forms, depth, budget, rich))
    return CON(kind, items)


# --------------------------------------------------------------------------- printer (the alternative spellings)
def fmt_num(S: Sentinels, x) -> str:
    if isinstance(x, str):
        return x
    return repr(S.new(x))


def print_element(S: Sentinels, e: EL, space: str) -> str:
    parts = []
    Class = _classes()[e.sym]
    for key in Class.get_default_values():
        sp = e.spec[key]
        form = sp["form"]
        if form == "omitted":
            continue
        t = "%s%s=%s%s%s" % (key, space, space, fmt_num(S, sp["value"]), sp["fixed"])
        if form in ("value_lower", "lower_inf"):
            t += "%s/%s%s" % (space, space, fmt_num(S, sp["lower"]))
        elif form == "upper_inf":
            t += "%s/%s/%s%s" % (space, space, space, fmt_num(S, sp["upper"]))
        elif form in ("value_lower_upper", "inf_limits", "lower_inf_upper", "lower_upper_inf"):
            t += "%s/%s%s%s/%s%s" % (space, space, fmt_num(S, sp["lower"]), space, space, fmt_num(S, sp["upper"]))
        elif form == "value_upper":
            t += "%s/%s/%s%s" % (space, space, space, fmt_num(S, sp["upper"]))
        elif form == "percent":
            t += "%s/%s%s%%%s/%s%s%s%%" % (space, space, fmt_num(S, sp["plower"]), space, space, fmt_num(S, sp["pupper"]), space)
        parts.append(t)
    for key in sorted(e.subs):
        sub, form = e.subs[key], e.sub_form[key]
        if isinstance(sub, str):
            parts.append("%s%s=%s%s" % (key, space, space, form))
        elif form == "bracket":
            parts.append("%s%s=%s%s" % (key, space, space, print_node(S, sub, space)))
        else:
            inner = sub.items if sub.kind == "S" else [sub]
            parts.append("%s%s=%s%s" % (key, space, space, space.join(print_node(S, it, space) for it in inner)))
    txt = e.sym
    if parts or e.label:
        txt += space + "{" + space + ("," + space).join(parts)
        if e.label:
            txt += space + ":" + e.label
        txt += "}"
    return txt


def print_node(S: Sentinels, node, space: str) -> str:
    if isinstance(node, EL):
        return print_element(S, node, space)
    o, c = ("[", "]") if node.kind == "S" else ("(", ")")
    return o + space + space.join(print_node(S, it, space) for it in node.items) + space + c


# --------------------------------------------------------------------------- comparing parsed and intended
def compare(eng, got, want, where="top"):
    from pyimpspec.circuit.base import Element, Connection, Container
    from pyimpspec.circuit.series import Series
    from pyimpspec.circuit.parallel import Parallel
    if isinstance(want, EL):
        ok = isinstance(got, Element) and got.get_symbol() == want.sym
        eng.check(ok, "same element types in order", lambda: "%s: got %r, wanted element %s" % (where, got, want.sym))
        if not ok:
            return
        eng.check(got.get_label() == want.label.strip(), "same labels", lambda: "%s: %r vs %r" % (where, got.get_label(), want.label))
        vals, lo, up, fx = got.get_values(), got.get_lower_limits(), got.get_upper_limits(), got.are_fixed()
        for key, w in want.given.items():
            eng.check(same(vals[key], w["value"]), "same values", lambda: "%s.%s: %r vs %r" % (where, key, vals[key], w["value"]))
            eng.check(same(lo[key], w["lower"]), "same lower limits", lambda: "%s.%s: %r vs %r" % (where, key, lo[key], w["lower"]))
            eng.check(same(up[key], w["upper"]), "same upper limits", lambda: "%s.%s: %r vs %r" % (where, key, up[key], w["upper"]))
            eng.check(same(fx[key], w["fixed"]), "same fixed flags", lambda: "%s.%s: %r vs %r" % (where, key, fx[key], w["fixed"]))
        if isinstance(got, Container):
            subs = got.get_subcircuits()
            defaults = type(got).get_default_subcircuits()
            for key in subs:
                if key in want.subs:
                    w = want.subs[key]
                    if w == "open":
                        eng.check(subs[key] is None, "sub-circuit open", lambda: "%s.%s: %r" % (where, key, subs[key]))
                    elif w == "short":
                        eng.check(isinstance(subs[key], Connection) and len(subs[key].get_elements()) == 0, "sub-circuit short")
                    else:
                        wn = normalise(w)
                        if isinstance(wn, EL):
                            wn = CON("S", [wn])
                        compare(eng, subs[key], wn, "%s.%s" % (where, key))
                else:
                    d = defaults[key]
                    same_default = (subs[key] is None and d is None) or (subs[key] is not None and d is not None
                                                                         and subs[key].to_string(1) == d.to_string(1))
                    eng.check(same_default, "unspelled sub-circuit keeps its default", lambda: "%s.%s" % (where, key))
        return
    ok = isinstance(got, Connection) and type(got) is (Series if want.kind == "S" else Parallel) and len(got._elements) == len(want.items)
    eng.check(ok, "same connection structure", lambda: "%s: got %s, wanted %s of %d" % (
        where, got.to_string() if hasattr(got, "to_string") else got, want.kind, len(want.items)))
    if not ok:
        return
    for i, (g, w) in enumerate(zip(got._elements, want.items)):
        compare(eng, g, w, "%s/%d" % (where, i))


def parse_tokens(eng, text: str, S: Sentinels):
    """real tokenizer on the sentinel text, sentinel numerals -> symbolic reals, real parser"""
    import pyimpspec.circuit.parser as pm
    import pyimpspec.circuit.tokenizer as tk
    toks = tk.Tokenizer().process(text)
    out = []
    for t in toks:
        if type(t) in (tk.Number, tk.FixedNumber) and eng.symbolic:
            try:
                sym = S.lookup(t.value)
            except KeyError:
                sym = t.value       # a literal of the syntax itself (the version number)
            out.append(type(t)(t.start, t.end, sym))
        else:
            out.append(t)

    class FakeTokenizer:
        def process(self, string):
            return list(out)
    saved = pm.Tokenizer
    pm.Tokenizer = FakeTokenizer
    try:
        return call(pm.Parser().process, text)
    finally:
        pm.Tokenizer = saved


def install_format_hook(eng, S: Sentinels, want_values: List[Tuple[Any, float]]):
    """'%.12E' % <symbolic>: print the sentinel of the intended quantity the value provably equals"""
    def hook(fmt, v):
        for sym, sent in want_values:
            if is_symbolic(sym) and eng.implied(same(v, sym), light=False):
                return fmt % sent
        raise PathAbort("re-serialisation met a value that equals no intended quantity")
    eng.scratch["format_hook"] = hook


# --------------------------------------------------------------------------- harnesses
def make_spelling_harness(symbols, forms, leaves: int, depth: int, name: str, plain: bool = False):
    def harness(eng):
        budget = [leaves]
        eng.scratch["plain"] = plain
        header = eng.choice(2, "header") == 1
        outer = eng.choice(2, "outer") == 1          # explicit outer brackets
        space = ("", " ")[eng.choice(2, "space")]
        tree = gen_connection(eng, "c", symbols, forms, depth, budget, rich=True)
        S = Sentinels()
        body = print_node(S, tree, space)
        if tree.kind == "S" and not outer:
            body = space.join(print_node(S, it, space) for it in tree.items)
        text = ("!V=1!" if header else "") + body
        eng.note_input("text", text)
        if not eng.symbolic:
            # concrete replay through the public API: numerals are the witness values
            from pyimpspec import parse_cdc
            ok, circuit = call(parse_cdc, text)
        else:
            ok, circuit = parse_tokens(eng, text, S)
        eng.reached("parsed")
        eng.check(ok, "a valid spelling is accepted", lambda: "%r: %s: %s" % (text, type(circuit).__name__, circuit))
        if not ok:
            return
        compare(eng, circuit._elements, normalise(tree, top=True))
    return harness


def make_roundtrip_harness(symbols, leaves: int, depth: int, decimals: int, symbolic_state: bool = True):
    """library emitter -> parser: same circuit; re-serialising and deep copies give the identical text"""
    def harness(eng):
        from pyimpspec.circuit.series import Series
        from pyimpspec.circuit.parallel import Parallel
        from pyimpspec.circuit.circuit import Circuit
        classes = _classes()
        budget = [leaves]
        top = eng.scratch.get("container_top")
        if top is None:
            tree = gen_connection(eng, "c", symbols, ("omitted",), depth, budget, rich=False)
        else:
            budget[0] -= 1
            tlm = gen_element(eng, "c.0", ["Tlm"], ("omitted",), 1, budget, rich=False)
            if top == 0:
                tree = CON("S", [tlm])
            else:
                r = EL("R")
                r.spec["R"], r.given["R"] = gen_param(eng, classes["R"], "R", "c.1.R", ("omitted",))
                tree = CON("S" if top == 1 else "P", [r, tlm])
        S = Sentinels()
        pairs: List[Tuple[Any, float]] = []

        def build(node, norm=False):
            if isinstance(node, CON):
                return (Series if node.kind == "S" else Parallel)([build(k, norm) for k in node.items])
            Class = classes[node.sym]
            kw = {}
            for key, sub in node.subs.items():
                if isinstance(sub, str):
                    kw[key] = None if sub == "open" else Series([])
                    continue
                sub = sub if isinstance(sub, CON) else CON("S", [sub])
                if norm:
                    # the parser's normal form of a sub-circuit: merged, a series of one connection is that connection
                    sub = normalise(sub)
                    if isinstance(sub, EL):
                        sub = CON("S", [sub])
                kw[key] = build(sub, norm)
            el = Class(**kw)
            if not symbolic_state:
                for key in Class.get_default_values():
                    node.given[key] = {"value": Class.get_default_value(key), "lower": Class.get_default_lower_limit(key),
                                       "upper": Class.get_default_upper_limit(key), "fixed": Class.is_fixed_by_default(key)}
                return el
            node.label = LABELS[eng.choice(len(LABELS), "lab")]
            el.set_label(node.label)
            for key in Class.get_default_values():
                # symbolic state: value, limits (finite or infinite), fixed flag -- any order relative to the class defaults
                v = eng.real("%d.%s.value" % (id_of(node), key))
                lo = eng.float_any("%d.%s.lower" % (id_of(node), key), kinds=("finite", "-inf"))
                up = eng.float_any("%d.%s.upper" % (id_of(node), key), kinds=("finite", "+inf"))
                fixed = eng.choice(2, "%d.%s.fixed" % (id_of(node), key)) == 1
                eng.assume(lo < up)
                eng.assume(lo <= v)
                eng.assume(v <= up)
                node.given[key] = {"value": v, "lower": lo, "upper": up, "fixed": fixed}
                sv = S.new(v)
                pairs.append((v, sv))
                slo = -INF if not is_symbolic(lo) else S.new(lo)
                sup = INF if not is_symbolic(up) else S.new(up)
                if is_symbolic(lo):
                    pairs.append((lo, slo))
                if is_symbolic(up):
                    pairs.append((up, sup))
                # order of the sentinels is irrelevant to the emitter; use the public setters on a fresh element
                el._set_limits({key: -INF}, {key: INF}) if hasattr(el, "_set_limits") else None
                el.set_values(**{key: sv})
                el._parameter_lower_limit[key] = slo
                el._parameter_upper_limit[key] = sup
                el.set_fixed(**{key: fixed})
            return el

        ids: Dict[int, int] = {}

        def id_of(node):
            return ids.setdefault(id(node), len(ids))
        built: Dict[int, Any] = {}

        def build_once(node, norm=False):
            if isinstance(node, CON):
                return (Series if node.kind == "S" else Parallel)([build_once(k, norm) for k in node.items])
            has_sub = any(not isinstance(v, str) for v in node.subs.values())
            key = (id(node), norm and has_sub)
            if key not in built:
                built[key] = build(node, norm)
            return built[key]
        con = build_once(tree)
        circuit = Circuit(con)
        text = circuit.to_string(decimals)
        expected_text = Circuit(build_once(normalise(tree, top=True), norm=True)).to_string(decimals)
        eng.note_input("text", text)
        if not eng.symbolic:
            from pyimpspec import parse_cdc
            ok, parsed = call(parse_cdc, text)
        else:
            ok, parsed = parse_tokens(eng, text, S)
        eng.reached("parsed")
        eng.check(ok, "the serialisation of a valid circuit is accepted", lambda: "%r: %s: %s" % (text, type(parsed).__name__, parsed))
        if not ok:
            return
        compare(eng, parsed._elements, normalise(tree, top=True))
        if eng.symbolic:
            install_format_hook(eng, S, pairs)
        ok2, text2 = call(parsed.to_string, decimals)
        eng.check(ok2 and text2 == expected_text, "re-serialising gives the identical text",
                  lambda: "%r vs %r" % (text2, expected_text))
        ok3, cp = call(_copy.deepcopy, parsed)
        eng.check(ok3, "deep copy of a parsed circuit succeeds", lambda: "raised %r" % (cp,))
        if ok3:
            ok4, text3 = call(cp.to_string, decimals)
            eng.check(ok4 and text3 == text2, "a deep copy serialises identically", lambda: "%r vs %r" % (text3, text2))
    return harness


def make_container_roundtrip_harness(decimals: int):
    """one container element (alone, or beside a resistor in series / in parallel) whose sub-circuits take every form"""
    def harness(eng):
        eng.scratch["plain"] = True
        inner = make_roundtrip_harness(["Tlm"], 8, 1, decimals, symbolic_state=False)
        top = eng.choice(3, "top")
        eng.scratch["container_top"] = top
        inner(eng)
    return harness


def make_label_harness(length: int):
    """every label of `length` characters that set_label accepts can be read back from 'R{:label}'"""
    def harness(eng):
        from pyimpspec import parse_cdc
        from pyimpspec.circuit.resistor import Resistor
        if eng.symbolic:
            from sx.strs import SStr, schar
            label = SStr([schar("l%d" % i, ascii_only=True) for i in range(length)])
        else:
            label = "".join(chr(eng.integer("l%d" % i)) for i in range(length))
        el = Resistor()
        ok, res = call(el.set_label, label)
        if not ok:
            eng.reached("label refused by set_label")
            return
        stored = el.get_label()
        if len(stored) == 0:
            return
        eng.reached("label accepted by set_label")
        if eng.symbolic:
            from sx.strs import SStr
            text = SStr(list("R{:")) + stored + "}"
        else:
            text = "R{:" + stored + "}"
        ok, circuit = call(parse_cdc, text)
        eng.check(ok, "a label accepted by set_label can be parsed back", lambda: "label %r: %s: %s" % (stored, type(circuit).__name__, circuit))
        if ok:
            got = circuit.get_elements()[0].get_label()
            eng.check(bool(same(got, stored)) if eng.symbolic else got == stored, "same labels", lambda: "%r vs %r" % (got, stored))
    return harness


def _label_key(witness, label):
    chars = []
    for k in sorted(witness):
        if k.startswith("l") and k[1:].isdigit() and witness[k] is not None:
            chars.append(chr(int(witness[k])))
    text = "".join(chars).strip()
    import string
    if text and text[0] not in string.ascii_letters:
        return "label beginning with a character that is not an ASCII letter"
    if "{" in text or "}" in text:
        return "label containing an unbalanced curly brace"
    return "label %r" % text


# --------------------------------------------------------------------------- obligations
def obligations(tier: str):
    from sx.runner import Obligation
    import pyimpspec.circuit.parser as pm
    import pyimpspec.circuit.base as base
    import pyimpspec.circuit.tokenizer as tk
    import pyimpspec.circuit.circuit as cc
    funcs = [pm.Parser.process, pm.Parser.main_loop, pm.Parser.connection, pm.Parser.element, pm.Parser.parameters, pm.Parser.subcircuit,
             pm.Parser.param, pm.Parser.param_limit, pm.Parser.migrate, base.Element.to_string, base.Container.to_string,
             base.Element.__copy__, base.Container.__deepcopy__, cc.Circuit.to_string, tk.Tokenizer.process]
    stubs = ["printed numerals are distinct sentinels; the Number tokens the real tokenizer produces for them are replaced by symbolic reals "
             "(any rounding is covered: the reals are constrained only by lower <= value <= upper, lower < upper)",
             "re-serialisation of symbolic values prints the sentinel of the intended quantity the value provably equals"]
    obs = []
    quick = tier == "quick"
    no_pct = tuple(f for f in FORMS if f != "percent")
    # one element, every parameter spelling
    for sym in (("R", "Q", "C") if quick else ("R", "Q", "C", "W", "L", "Tlm")):
        n_par = len(_classes()[sym].get_default_values())
        forms = FORMS if (n_par == 1 or not quick) else ("omitted", "value", "value_lower_upper", "value_upper", "upper_inf", "lower_upper_inf")
        o = Obligation("spelling.one.%s" % sym, make_spelling_harness([sym], forms, 1, 1 if sym == "Tlm" else 0, sym),
                       bounds="one %s element inside series/parallel brackets; every parameter in one of %d spellings %r; labels %r; fixed marker F/f/none; "
                              "implicit or explicit outer series; version header; blanks between tokens" % (sym, len(forms), forms, LABELS),
                       functions=funcs, stubs=stubs, expect_reach=["parsed", "same values"], max_paths=2000000)
        obs.append(o)
    # structure with spellings on the leaves
    lv = 2 if quick else 3
    obs.append(Obligation("spelling.tree", make_spelling_harness(["R", "C"], ("omitted",) if quick else ("omitted", "value_lower_upper"), 3, 1, "tree", plain=True),
                          bounds="every nest of <= 3 leaves (R, C), depth <= 2, parameters omitted%s" % ("" if quick else " / value+limits"),
                          functions=funcs, stubs=stubs, expect_reach=["parsed", "same connection structure"], max_paths=2000000))
    obs.append(Obligation("spelling.container", make_spelling_harness(["Tlm", "R"], ("omitted",), lv, 1, "container", plain=True),
                          bounds="nests of <= %d leaves over {Tlm, R}; sub-circuits X_1, X_2 unspelled / open|inf / short|zero / bracketed / bare element list" % lv,
                          functions=funcs, stubs=stubs, expect_reach=["parsed", "same connection structure"], max_paths=2000000))
    # emitter round trip
    for d in ((1, 12) if quick else (1, 6, 12, 17)):
        for sym in (("R", "C", "Q") if quick else ("R", "C", "Q", "Tlm")):
            if quick and sym == "Q" and d != 12:
                continue
            obs.append(Obligation("roundtrip.%s.d%d" % (sym, d), make_roundtrip_harness([sym], 2 if sym != "Q" or not quick else 1, 0, d),
                                  bounds="to_string(%d) -> parse of <= 2 %s elements in one connection; values, limits (finite/inf, any order "
                                         "relative to class defaults), fixed flags, labels symbolic/enumerated" % (d, sym),
                                  functions=funcs, stubs=stubs, expect_reach=["parsed", "same values", "re-serialising gives the identical text"],
                                  max_paths=2000000))
    obs.append(Obligation("roundtrip.container", make_container_roundtrip_harness(12),
                          bounds="to_string(12) -> parse of [Tlm], [R Tlm], (R Tlm) whose X_1 sub-circuit is default / open / short / one of %d shapes "
                                 "(incl. series made of connections only) and X_2 default / open / short" % len(SUB_SHAPES),
                          functions=funcs, stubs=stubs, expect_reach=["parsed", "re-serialising gives the identical text"], max_paths=2000000))
    for n in ((1, 2) if quick else (1, 2, 3)):
        obs.append(Obligation("label.%d" % n, make_label_harness(n), bounds="every label of %d characters (any code point) accepted by set_label" % n,
                              functions=funcs + [base.Element.set_label], key=_label_key, expect_reach=["label accepted by set_label"],
                              max_paths=2000000))
    for o in obs:
        o.replay = o.harness
    return obs


EXPLANATION = (
    "Bounded symbolic execution with z3 of the real parser (and tokenizer/emitter, run concretely on sentinel numerals) against a "
    "grammar-directed generator that owns the intended syntax tree: shapes and spelling alternatives are explored exhaustively by "
    "solver-driven choices, all numbers are symbolic reals; z3 decides on every path whether the parsed circuit can differ from the "
    "intended one in structure, element order, labels, fixed flags, values or limits, and whether re-serialisation / deep copy can differ."
)
ASSUMPTIONS = [
    "'%.dE' formatting and re-tokenising of a numeral is abstracted: printed numbers are arbitrary reals that keep lower <= value <= upper and lower < upper",
    "white space between tokens is covered by the tokenizer step obligations of C04 and exercised here by an all-or-nothing blank switch",
    "labels come from a fixed list of labels the parser can read back (see the known finding about other labels)",
]
OUTSIDE = ["digits of printed numbers", "trees larger than the stated bounds", "labels beginning with a non-letter or containing '}'"]


def replay(obligation: str, witness):
    from sx.concrete import run_concrete
    for tier in replay_tiers():
        for ob in obligations(tier):
            if ob.name == obligation:
                reproduced, msg, _ = run_concrete(ob.harness, witness)
                return reproduced, msg
    raise KeyError(obligation)
