"""Replay a stored counterexample against the plain library (no loader, fresh interpreter).
exit 10 = reproduced, 0 = did not reproduce, other = crash."""
import importlib
import json
import os
import sys

ROOT = os.path.dirname(os.path.dirname(os.path.abspath(__file__)))
sys.path.insert(0, ROOT)


def main():
    path = sys.argv[1]
    with open(path) as fp:
        rec = json.load(fp)
    os.environ["SX_REPLAY_TIER"] = rec.get("tier", "quick")       # the bounds of the run that produced the witness
    mod = importlib.import_module("checks." + rec["module"])
    reproduced, msg = mod.replay(rec["obligation"], rec["witness"])
    print(("REPRODUCED: " if reproduced else "not reproduced: ") + str(msg))
    sys.exit(10 if reproduced else 0)


if __name__ == "__main__":
    main()
