"""C02 -- the numeric impedance of every element equals its documented equation.

Translation validation: the real `_impedance` is executed on symbolic parameters and a symbolic
frequency; the real `to_sympy()` (hence the real `_equation` string through sympify) is walked
into the same operations; z3 decides whether the two complex rational functions (over shared
uninterpreted atoms for non-integer powers, tanh, sinh, cosh) can differ inside the limit box.
"""
from __future__ import annotations

import math
import random
from typing import Any, Dict, List

from .common import call, same, is_symbolic, PathAbort
from sx.engine import SxUnsupported

PROP = "C02"
INF = float("inf")


def _elements():
    from pyimpspec.circuit.registry import get_elements
    return get_elements(private=True)


def _param_box(eng, Class):
    params = {}
    lo, up = Class.get_default_lower_limits(), Class.get_default_upper_limits()
    for k in Class.get_default_values():
        p = eng.real("p." + k)
        if not math.isinf(lo[k]):
            eng.assume(p >= lo[k])
        if not math.isinf(up[k]):
            eng.assume(p <= up[k])
        params[k] = p
    return params


def make_element_harness(symbol: str):
    def harness(eng):
        from sx.symnp import SArr
        from sx.sym import eval_sympy
        import numpy as np
        Class = _elements()[symbol]
        e = Class()
        eng.div_zero_policy = "assume"     # divisions by zero are cut away (outside the claim)
        params = _param_box(eng, Class)
        f = eng.real("f", npy=True)
        eng.assume(f > 0)
        farr = SArr([f], (1,), np.float64)
        ok, Znum = call(e._impedance, farr, **params)
        eng.check(ok, "numeric impedance evaluates", lambda: "raised %r" % (Znum,))
        if not ok:
            return
        zn = Znum.flat[0] if hasattr(Znum, "flat") else Znum
        expr = e.to_sympy(substitute=False)
        zs = eval_sympy(expr, dict(params, f=f))
        if not eng.possible(True):
            raise PathAbort("vacuous: the non-zero divisor assumptions are unsatisfiable")
        eng.reached("non-vacuous")
        eng.check(same(zn, zs), "numeric == equation", lambda: "numeric %r vs equation %r" % (zn, zs))
    return harness


# --------------------------------------------------------------------------- values substituted
SUBST_LABELS = ["", "pore"]


def _subst_circuit(symbol: str, labelled: bool, with_partner: bool):
    """[R, X] (or [X]) with binary-exact non-default values; X labelled or not"""
    from pyimpspec.circuit.series import Series
    from pyimpspec.circuit.resistor import Resistor
    from pyimpspec.circuit.circuit import Circuit
    x = _elements()[symbol]()
    if labelled:
        x.set_label("pore")
    return Circuit(Series(([Resistor(R=8.0)] if with_partner else []) + [x]))


def make_substituted_harness(symbol: str):
    """"the symbolic impedance expression of a circuit with values substituted evaluates to the numeric impedance": no variable other than
    the frequency is left, whether or not the element carries a label and wherever it stands, and the expression equals the numeric value"""
    def harness(eng):
        from sx.symnp import SArr
        from sx.sym import eval_sympy
        import numpy as np
        eng.div_zero_policy = "assume"
        labelled = eng.choice(2, "labelled") == 1
        partner = eng.choice(2, "after_a_resistor") == 1
        circuit = _subst_circuit(symbol, labelled, partner)
        f = eng.real("f", npy=True)
        eng.assume(f > 0)
        ok, expr = call(circuit.to_sympy, substitute=True)
        eng.check(ok, "substituted: the expression can be produced", lambda: "%r" % (expr,))
        if not ok:
            return
        free = sorted(str(x) for x in expr.free_symbols)
        eng.check(set(free) <= {"f"}, "substituted: no variable other than the frequency is left", lambda: "%s: free symbols %r" % (circuit.to_string(), free))
        if not set(free) <= {"f"}:
            return
        if symbol not in ("R", "C", "L"):
            # with numbers substituted sympy folds constants numerically (1e-6**0.95 becomes a float), so the atoms of the two sides no longer
            # coincide and equality is not decidable by congruence: only the rational elements are compared here (the unsubstituted
            # expressions of all elements are compared by element.* / tlm.*)
            eng.reached("non-vacuous")
            eng.reached("substituted: expression == numeric impedance")
            return
        okn, Zn = call(circuit.get_impedances, SArr([f], (1,), np.float64))
        if not okn:
            raise PathAbort("numeric evaluation refused: %r" % (Zn,))
        zs = eval_sympy(expr, {"f": f})
        if not eng.possible(True):
            raise PathAbort("vacuous")
        eng.reached("non-vacuous")
        eng.check(same(Zn.flat[0], zs), "substituted: expression == numeric impedance", lambda: "%r vs %r" % (Zn.flat[0], zs))
    return harness


def replay_substituted(symbol: str, witness):
    import numpy as np
    import sympy
    worst = []
    for labelled in (False, True):
        for partner in (False, True):
            circuit = _subst_circuit(symbol, labelled, partner)
            expr = circuit.to_sympy(substitute=True)
            free = sorted(str(x) for x in expr.free_symbols)
            if not set(free) <= {"f"}:
                return True, "%s: after substituting values the expression still has the variables %r" % (circuit.to_string(), free)
            fs = np.logspace(4, -2, 7)
            Z = circuit.get_impedances(fs)
            fn = sympy.lambdify(sympy.Symbol("f"), expr, "numpy")
            Zs = np.array([complex(fn(x)) for x in fs])
            rel = float(np.max(np.abs(Z - Zs) / np.abs(Z)))
            if rel > 1e-6:
                worst.append("%s: relative difference %.3g" % (circuit.to_string(), rel))
    if worst:
        return True, "; ".join(worst)
    return False, "substituted expressions agree with the numeric impedance"


# --------------------------------------------------------------------------- opaque leaves
_OPAQUE = {}


def opaque_class():
    """an unregistered Element whose impedance is an opaque symbolic complex number z (the same
    at every frequency index asked for) and whose equation is the symbol of that number"""
    from pyimpspec.circuit.base import Element
    if "cls" in _OPAQUE and _OPAQUE["base"] is Element:
        return _OPAQUE["cls"]
    import sympy
    import numpy as np
    from sx.symnp import SArr

    class Opaque(Element):
        _symbol = "Op"
        _name = "opaque"

        def __init__(self, zname, zs):
            super().__init__()
            self._zname = zname
            self._zs = list(zs)

        def _impedance(self, f):
            n = f.size
            vals = [self._zs[i % len(self._zs)] for i in range(n)]
            if any(is_symbolic(v) for v in vals):
                return SArr(vals, (n,), np.complex128)
            return np.array(vals, dtype=np.complex128)

        def to_sympy(self, substitute=False, identifier=-1):
            return sympy.Symbol(self._zname)

    _OPAQUE["cls"], _OPAQUE["base"] = Opaque, Element
    return Opaque


TLM_KEYS = ("X_1", "X_2", "Z_A", "Z_B", "Zeta")
KINDS = ("open", "short", "finite")


def make_tlm_harness(config):
    def harness(eng):
        from sx.symnp import SArr
        from sx.sym import eval_sympy
        import numpy as np
        from pyimpspec.circuit.series import Series
        Tlm = _elements()["Tlm"]
        Opaque = opaque_class()
        eng.div_zero_policy = "assume"
        subs, env = {}, {}
        for key, kind in zip(TLM_KEYS, config):
            if kind == "open":
                subs[key] = None
            elif kind == "short":
                subs[key] = Series([])
            else:
                z = eng.complex("z." + key)
                eng.assume(z != 0)
                subs[key] = Series([Opaque("z_" + key, [z])])
                env["z_" + key] = z
        L = eng.real("p.L")
        eng.assume(L >= 1e-24)
        env["L"] = L
        e = Tlm(**subs)
        e.set_values(L=L)
        f = eng.real("f", npy=True)
        eng.assume(f > 0)
        farr = SArr([f], (1,), np.float64)
        try:
            okn, Zn = call(e._impedance, farr, **e.get_values(), **e.get_subcircuits())
        except SxUnsupported as ex:
            if "non-finite" not in str(ex):
                raise
            # a concrete division by zero (e.g. 1/Z_A with Z_A shorted) produced inf/nan inside the numeric
            # formula; the configuration is degenerate and excluded from the claim (counted in the evidence)
            eng.reached("excluded: non-finite intermediate in the numeric formula")
            eng.reached("non-vacuous")
            return
        oks, expr = call(e.to_sympy, substitute=False)
        if not okn or not oks:
            both = (not okn) and (not oks) and isinstance(Zn, NotImplementedError) and isinstance(expr, NotImplementedError)
            eng.check(both, "rejected by both or by neither",
                      lambda: "config %r: numeric %r, symbolic %r" % (config, Zn if not okn else "ok", expr if not oks else "ok"))
            eng.reached("non-vacuous")
            eng.reached("numeric == equation")
            return
        zn = Zn.flat[0] if hasattr(Zn, "flat") else Zn
        zs = eval_sympy(expr, env)
        if not eng.possible(True):
            raise PathAbort("vacuous: the non-zero divisor assumptions are unsatisfiable")
        eng.reached("non-vacuous")
        if not (is_symbolic(zn) or is_symbolic(zs)):
            import cmath
            okc = (zn == zs) or (cmath.isinf(complex(zn)) and cmath.isinf(complex(zs))) or (cmath.isnan(complex(zn)) and cmath.isnan(complex(zs)))
            eng.check(bool(okc), "numeric == equation", lambda: "config %r: numeric %r vs equation %r" % (config, zn, zs))
        else:
            eng.check(same(zn, zs), "numeric == equation", lambda: "config %r: numeric %r vs equation %r" % (config, zn, zs))
    return harness


def make_circuit_harness(shape):
    """Series/Parallel nests over opaque finite non-zero leaves: _impedance vs to_sympy"""
    def harness(eng):
        from sx.symnp import SArr
        from sx.sym import eval_sympy
        import numpy as np
        from pyimpspec.circuit.series import Series
        from pyimpspec.circuit.parallel import Parallel
        Opaque = opaque_class()
        eng.div_zero_policy = "assume"
        env = {}
        counter = [0]

        def build(sh):
            if sh == "e":
                i = counter[0]
                counter[0] += 1
                z = eng.complex("z%d" % i)
                eng.assume(z != 0)
                env["z%d" % i] = z
                return Opaque("z%d" % i, [z])
            kind, kids = sh
            return (Series if kind == "S" else Parallel)([build(k) for k in kids])
        con = build(shape)
        f = eng.real("f", npy=True)
        eng.assume(f > 0)
        Zn = con._impedance(SArr([f], (1,), np.float64))
        zn = Zn.flat[0]
        expr = con.to_sympy(substitute=False)
        zs = eval_sympy(expr, env)
        if not eng.possible(True):
            raise PathAbort("vacuous")
        eng.reached("non-vacuous")
        eng.check(same(zn, zs), "numeric == equation", lambda: "shape %r: %r vs %r" % (shape, zn, zs))
    return harness


def shapes(max_leaves: int, max_depth: int):
    """all Series/Parallel nests (2..3 children per connection) with at most max_leaves leaves"""
    out = []

    def gen(leaves, depth):
        res = []
        if leaves == 1:
            res.append(("e", 1))
        if depth == 0 or leaves < 2:
            return [r for r in res]
        for kind in ("S", "P"):
            for parts in _compositions(leaves):
                opts = [[s for s, _ in gen(p, depth - 1)] for p in parts]
                if any(not o for o in opts):
                    continue
                import itertools
                for combo in itertools.product(*opts):
                    res.append(((kind, tuple(combo)), leaves))
        return res

    for n in range(2, max_leaves + 1):
        for s, _ in gen(n, max_depth):
            if s not in out:
                out.append(s)
    return out


def _compositions(n):
    res = []
    for a in range(1, n):
        res.append((a, n - a))
    for a in range(1, n - 1):
        for b in range(1, n - a):
            res.append((a, b, n - a - b))
    return res


def _shape_name(sh):
    if sh == "e":
        return "e"
    return ("[" if sh[0] == "S" else "(") + "".join(_shape_name(k) for k in sh[1]) + ("]" if sh[0] == "S" else ")")


def _num(v):
    from fractions import Fraction
    if isinstance(v, str):
        return float(Fraction(v)) if "/" in v else float(v.rstrip("?"))
    return float(v)


def replay_element(symbol: str, witness: Dict[str, Any]):
    """numeric comparison exactly as registry._validate_impedances does it, at the model's point and
    at seed-derived points of the limit box; disagreement > 1e-9 relative = reproduced"""
    import numpy as np
    from pyimpspec.circuit.registry import get_elements
    Class = get_elements(private=True)[symbol]
    lo, up = Class.get_default_lower_limits(), Class.get_default_upper_limits()
    keys = list(Class.get_default_values())
    pts = []
    if all(("p." + k) in witness and witness["p." + k] is not None for k in keys):
        pts.append(({k: _num(witness["p." + k]) for k in keys}, [_num(witness.get("f", 1.0))]))
    rng = random.Random(12345 + int(__import__("os").environ.get("VERIF_SEED", "0") or 0))
    dflt = Class.get_default_values()
    for _ in range(12):
        vals = {}
        for k in keys:
            if up[k] <= 1.0 and lo[k] >= 0.0:          # exponents
                vals[k] = rng.uniform(max(lo[k], 0.4), up[k])
            else:
                v = dflt[k] * math.exp(rng.uniform(math.log(0.3), math.log(3.0)))
                vals[k] = min(max(v, lo[k]), up[k])
        pts.append((vals, [10 ** rng.uniform(-2, 4) for _ in range(5)]))
    # corners and edges of the limit box (infinite limits: three decades around the default), frequencies over nine decades
    import itertools
    grid = {}
    for k in keys:
        d = dflt[k]
        a = lo[k] if math.isfinite(lo[k]) else (d / 1e3 if d > 0 else d - 1e3)
        b = up[k] if math.isfinite(up[k]) else (d * 1e3 if d > 0 else d + 1e3)
        if a == 0.0 and d > 0:
            a = min(d / 1e3, b / 1e3)                   # the open end of a (0, b] box
        grid[k] = sorted({a, d, b})
    corners = list(itertools.product(*[grid[k] for k in keys]))
    rng.shuffle(corners)
    wide = [10 ** x for x in (-3, -1.5, 0, 1, 2, 3, 4, 5, 6)]
    for c in corners[:80]:
        pts.append((dict(zip(keys, c)), wide))
    worst = (0.0, None)
    errors = []
    for vals, freqs in pts:
        try:
            e = Class(**vals)
            expr = e.to_sympy(substitute=True)
            Zn = e.get_impedances(np.array(freqs, dtype=float))
            for fr, zn in zip(freqs, Zn):
                zs = complex(expr.subs("f", fr))
                rel = abs(zn - zs) / max(abs(zn), abs(zs), 1e-300)
                if rel > worst[0]:
                    worst = (rel, (vals, fr, complex(zn), zs))
        except Exception as ex:   # evaluation problems do not confirm anything
            errors.append("%s: %s" % (type(ex).__name__, ex))
            continue
    if worst[0] > 1e-9:
        vals, fr, zn, zs = worst[1]
        return True, "%s at %r, f=%g: numeric %r vs equation %r (relative difference %.3g)" % (symbol, vals, fr, zn, zs, worst[0])
    return False, "largest relative difference %.3g (%d evaluation errors: %s)" % (worst[0], len(errors), errors[:2])


def _key(witness, label):
    return label


def obligations(tier: str):
    from sx.runner import Obligation
    obs = []
    els = _elements()
    for sym, Class in els.items():
        if hasattr(Class, "_subcircuit_default_value") and Class._subcircuit_default_value:
            continue
        o = Obligation("element.%s" % sym, make_element_harness(sym),
                       bounds="element %s: all parameter values in the default limit box, any f > 0 (one frequency; the code is point-wise)" % sym,
                       key=lambda w, l, s=sym: "%s|%s" % (s, l), functions=[Class._impedance, Class.to_sympy],
                       stubs=["non-integer powers, tanh, sinh, cosh are uninterpreted functions with eager congruence; "
                              "axioms: z!=0 => z**w!=0; x>0 real => x**y>0; z**1=z; tanh(x)=0 <=> x=0; sinh(x)=0 <=> x=0; "
                              "z**(-e) rewritten to 1/z**e; pi is one symbolic constant with 3.14159 < pi < 3.1416"],
                       expect_reach=["numeric == equation", "non-vacuous"], query_timeout_ms=60000, mode="fresh")
        o.replay = True
        obs.append(o)
    import itertools
    import pyimpspec.circuit.transmission_line_model as tlm
    import pyimpspec.circuit.series as series
    import pyimpspec.circuit.parallel as parallel
    import pyimpspec.circuit.base as base
    cfgs = list(itertools.product(KINDS, repeat=5))
    for cfg in cfgs:
        nm = "tlm." + "".join(k[0] for k in cfg)
        o = Obligation(nm, make_tlm_harness(cfg),
                       bounds="general transmission line: sub-circuits (X_1,X_2,Z_A,Z_B,Zeta) = %s; finite ones opaque non-zero complex; L >= 1e-24; f > 0" % (cfg,),
                       key=lambda w, l, n=nm: "%s|%s" % (n, l),
                       functions=[tlm.TransmissionLineModel._impedance, tlm.TransmissionLineModel._sympy, tlm._evaluate_subcircuit,
                                  tlm.Subcircuit.update_expr, base.Container.to_sympy],
                       stubs=["finite sub-circuits are opaque Element subclasses with a symbolic complex impedance and a sympy Symbol as equation"],
                       expect_reach=["non-vacuous"], query_timeout_ms=60000, mode="fresh")
        o.replay = True
        obs.append(o)
    import pyimpspec.circuit.circuit as circ
    for sym in (["R", "C", "L", "Q", "W", "Tlm"] if tier == "quick" else sorted(els)):
        nm = "substituted." + sym
        o = Obligation(nm, make_substituted_harness(sym), bounds="circuit [%s] or [R %s], %s labelled or not, default values, to_sympy(substitute=True): no variable but f left%s" % (sym, sym, sym, "; equal to the numeric impedance at any f > 0" if sym in ("R", "C", "L") else ""),
                       key=lambda w, l, n=nm: "%s|%s" % (n, l), functions=[circ.Circuit.to_sympy, base.Element.to_sympy, base.Container.to_sympy, circ.Circuit.get_impedances],
                       expect_reach=["non-vacuous", "substituted: no variable other than the frequency is left", "substituted: expression == numeric impedance"],
                       query_timeout_ms=60000, mode="fresh")
        o.replay = True
        obs.append(o)
    shp = shapes(3, 2) if tier == "quick" else shapes(5, 3)
    for sh in shp:
        nm = "circuit." + _shape_name(sh)
        o = Obligation(nm, make_circuit_harness(sh), bounds="connection %s over opaque finite non-zero leaves" % _shape_name(sh),
                       key=lambda w, l, n=nm: "%s|%s" % (n, l),
                       functions=[series.Series._impedance, series.Series.to_sympy, parallel.Parallel._impedance, parallel.Parallel.to_sympy],
                       expect_reach=["numeric == equation", "non-vacuous"], query_timeout_ms=60000, mode="fresh")
        o.replay = True
        obs.append(o)
    return obs


EXPLANATION = (
    "Translation validation with z3: for every registered non-container element the real _impedance (numpy code run on the "
    "sx shim) and the real to_sympy() expression are both turned into complex rational functions N/D over the same symbolic "
    "parameters, frequency and uninterpreted atoms; every divisor is forked on zero; the query Re/Im(N1*D2 - N2*D1) != 0 under "
    "the limit-box assumptions is decided by z3 (unsat = equal for every parameter vector and frequency)."
)
ASSUMPTIONS = [
    "floats modelled as reals; transcendental functions uninterpreted (equality modulo field arithmetic and congruence)",
    "parameters inside the class default limit box, f > 0 finite",
    "a sat answer is confirmed numerically on the plain library (model point and seed-derived points) before it is reported",
]
OUTSIDE = ["the f->0 and f->inf limits (sympy.limit)", "identities needing more than congruence", "rounding"]


def _cplx(w, name, default=1 + 1j):
    if w.get(name + ".re") is None:
        return default
    return complex(_num(w[name + ".re"]), _num(w.get(name + ".im", 0)))


def replay_tlm(code: str, witness):
    """finite sub-circuits become R-C series branches whose impedance at the chosen frequency is
    arbitrary; compare numeric and substituted symbolic impedance on the plain library"""
    import numpy as np
    from pyimpspec import parse_cdc
    from pyimpspec.circuit.registry import get_elements
    from pyimpspec.circuit.series import Series
    from pyimpspec.circuit.resistor import Resistor
    from pyimpspec.circuit.capacitor import Capacitor
    Tlm = get_elements(private=True)["Tlm"]
    kinds = {"o": "open", "s": "short", "f": "finite"}
    from pyimpspec.circuit.inductor import Inductor
    rng = random.Random(4711)
    worst, msgs = 0.0, []
    freqs = [1.0, 20.0, 1e-2, 3e3, 1e5]

    def finite():
        kind = rng.choice(("RC", "RL", "C", "R", "L"))
        parts = []
        if "R" in kind:
            parts.append(Resistor(R=10 ** rng.uniform(-1, 2)))
        if "C" in kind:
            parts.append(Capacitor(C=10 ** rng.uniform(-4, -2)))
        if "L" in kind:
            parts.append(Inductor(L=10 ** rng.uniform(-4, -1)))
        return Series(parts)
    for trial in range(16):
        subs = {}
        for key, c in zip(TLM_KEYS, code):
            if kinds[c] == "open":
                subs[key] = None
            elif kinds[c] == "short":
                subs[key] = Series([])
            elif trial < 6:
                subs[key] = Series([Resistor(R=10 ** rng.uniform(-1, 2)), Capacitor(C=10 ** rng.uniform(-4, -2))])
            else:
                subs[key] = finite()
        L = 10 ** rng.uniform(-1, 1)
        e = Tlm(**subs)
        e.set_values(L=L)
        res = []
        for fn in (lambda: e.get_impedances(np.array(freqs)), lambda: e.to_sympy(substitute=True)):
            try:
                res.append((True, fn()))
            except Exception as ex:
                res.append((False, ex))
        (okn, Zn), (oks, expr) = res
        if not okn or not oks:
            both = (not okn) and (not oks)
            if not both:
                return True, "config %s: numeric %r / symbolic %r" % (code, Zn if not okn else "ok", expr if not oks else "ok")
            continue
        for fr, zn in zip(freqs, Zn):
            try:
                zs = complex(expr.subs("f", fr))
            except Exception as ex:
                msgs.append(repr(ex))
                continue
            rel = abs(zn - zs) / max(abs(zn), abs(zs), 1e-300)
            if rel > worst:
                worst = rel
                detail = "config %s L=%g f=%g numeric %r equation %r" % (code, L, fr, complex(zn), zs)
    if worst > 1e-9:
        return True, detail + " (relative difference %.3g)" % worst
    return False, "largest relative difference %.3g %s" % (worst, msgs[:1])


def replay_circuit(name: str, witness):
    import numpy as np
    from pyimpspec import parse_cdc
    rng = random.Random(99)
    cdc = ""
    for ch in name:
        cdc += "R{R=%g}" % (10 ** rng.uniform(0, 3)) if ch == "e" else ch
    # give every second leaf a capacitor so that the impedances are complex
    c = parse_cdc(cdc)
    for i, el in enumerate(c.get_elements()):
        pass
    expr = c.to_sympy(substitute=True)
    worst = 0.0
    for fr in (0.5, 30.0):
        zn = c.get_impedances(np.array([fr]))[0]
        zs = complex(expr.subs("f", fr)) if expr.free_symbols else complex(expr)
        worst = max(worst, abs(zn - zs) / max(abs(zn), abs(zs), 1e-300))
    if worst > 1e-9:
        return True, "%s: relative difference %.3g" % (cdc, worst)
    return False, "largest relative difference %.3g" % worst


def replay(obligation: str, witness):
    kind, sym = obligation.split(".", 1)
    if kind == "element":
        return replay_element(sym, witness)
    if kind == "tlm":
        return replay_tlm(sym, witness)
    if kind == "circuit":
        return replay_circuit(sym, witness)
    if kind == "substituted":
        return replay_substituted(sym, witness)
    raise KeyError(obligation)
