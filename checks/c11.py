"""C11 -- Z-HIT reconstructs the modulus from the phase (PARTIAL: the analytic core).

Decided with z3 on the real zhit code with quadrature, splines, rect() and the offset minimiser
replaced by exact / contract stubs of a *given* phase function:
  * constant phase phi: the real _reconstruct returns ln|X|_i - ln|X|_0 = (2/pi) phi (ln w_i - ln w_0)
    in both representations (exact reconstruction for R, C, L, Q, W, whose ln|Z| = -n ln w + c and
    phase = -n pi/2), the derivative term being 0;
  * linear phase: the correction term is gamma * dphi/dln(w) with gamma = -pi/6 (pins sign and size);
  * the offset residual of a point with weight 0 is 0 whatever the data; no positive weight / a negative
    weight is refused;
  * scaling the impedance by c (ln|X| + ln c) scales the reconstructed X by c and leaves chi-squared unchanged.
"""
from __future__ import annotations

from typing import Any, List

from .common import call, same, is_symbolic, PathAbort, mk_array, replay_tiers
from .c16 import FakeParameters

PROP = "C11"


class Phase:
    """a phase function of ln(omega): alpha + beta * x, with its exact integral and derivative"""

    def __init__(self, alpha, beta):
        self.alpha, self.beta = alpha, beta

    def __call__(self, x):
        return self.alpha + self.beta * x

    def integral(self, a, b):
        return self.alpha * (b - a) + self.beta * (b * b - a * a) / 2

    def derivative(self, k=1):
        beta = self.beta

        class D:
            def __call__(self, x):
                return beta
        return D()


def _nonvacuous(eng):
    if not eng.possible(True):
        raise PathAbort("vacuous")
    eng.reached("non-vacuous")


def make_reconstruct_harness(n: int, linear: bool, admittance: bool):
    def harness(eng):
        import scipy.integrate
        import pyimpspec.analysis.zhit.reconstruction as zr
        from sx.shims import PI
        from sx.values import pi_val
        eng.div_zero_policy = "assume"
        xs = [eng.real("lnw%d" % i, npy=True) for i in range(n)]       # ln(omega), descending like the frequencies
        for i in range(1, n):
            eng.assume(xs[i - 1] > xs[i])
        alpha = eng.real("alpha", npy=True)
        beta = eng.real("beta", npy=True) if linear else 0
        ph = Phase(alpha, beta)

        # environment: at one (explored) point the quadrature demands a looser tolerance and more subdivisions than the defaults
        # before it succeeds; it complains with scipy's IntegrationWarning messages; within the retry budget (9 retries) the
        # loop must still obtain the integral
        hard = eng.choice(n + 1, "hard_point")            # n: no point is hard
        need_eps, need_lim = 1e-9, 100
        if hard < n:
            a_ = eng.choice(6, "looser_tolerance_steps")
            b_ = eng.choice(5, "more_subdivision_steps")
            for _ in range(a_):
                need_eps *= 10
            need_lim += 100 * b_

        def quad(f, a=None, b=None, epsabs=1.49e-8, limit=50, **kw):
            import warnings
            from scipy.integrate import IntegrationWarning
            if done[0] == hard:                            # the points are integrated in order, one success each
                if limit < need_lim:
                    warnings.warn("The maximum number of subdivisions (%d) has been achieved." % limit, IntegrationWarning)
                    return (f.integral(a, b) + 1, 1.0)      # with the warning ignored the value is not converged
                if epsabs < need_eps:
                    warnings.warn("The occurrence of roundoff error is detected, which prevents the requested tolerance from being achieved.", IntegrationWarning)
                    return (f.integral(a, b) + 1, 1.0)
            done[0] += 1
            return (f.integral(a, b), 0.0)
        done = [0]
        saved = (scipy.integrate.quad, zr.isnan)
        scipy.integrate.quad = quad
        try:
            ok, res = call(zr._reconstruct, (mk_array(eng, xs), ph, ph.derivative(1), "none", "akima", admittance))
        finally:
            scipy.integrate.quad = saved[0]
        _nonvacuous(eng)
        eng.check(ok, "the reconstruction completes when the quadrature succeeds within the retry budget", lambda: "hard point %r: %r" % (hard, res))
        if not ok:
            return
        out, sm, ip = res
        pi = pi_val() if eng.symbolic else 3.141592653589793
        for i in range(n):
            want = 2 / pi * ph.integral(xs[0], xs[i]) + (-pi / 6) * beta
            eng.check(same(out[i], want), "reconstruction = (2/pi) integral of the phase + gamma * derivative, gamma = -pi/6",
                      lambda: "point %d: %r vs %r" % (i, out[i], want))
            if not linear:
                eng.check(same(out[i], 2 / pi * alpha * (xs[i] - xs[0])), "constant phase: ln|X|_i - ln|X|_0 = (2/pi) phi (ln w_i - ln w_0)")
    return harness


def make_weights_harness(n: int):
    def harness(eng):
        import lmfit
        import pyimpspec.analysis.zhit.offset as zo
        from pyimpspec.exceptions import ZHITError
        rec = [eng.real("rec%d" % i, npy=True) for i in range(n)]
        lnm = [eng.real("lnm%d" % i, npy=True) for i in range(n)]
        kinds = [eng.choice(3, "w%d.kind" % i) for i in range(n)]     # 0: zero, 1: positive symbolic, 2: negative symbolic
        ws = []
        for i, k in enumerate(kinds):
            if k == 0:
                ws.append(0.0)
            else:
                w = eng.real("w%d" % i, npy=True)
                eng.assume(w > 0 if k == 1 else w < 0)
                ws.append(w)
        off = eng.real("offset", npy=True)
        p = FakeParameters()
        p.add("offset", off)
        res = zo._offset_residual(p, mk_array(eng, rec), mk_array(eng, lnm), mk_array(eng, ws))
        for i, k in enumerate(kinds):
            if k == 0:
                eng.check(same(res[i], 0), "a point with weight 0 contributes nothing to the offset fit")
            else:
                d = rec[i] + off - lnm[i]
                eng.check(same(res[i], ws[i] * d * d), "offset residual = weight * (reconstruction + offset - ln|X|)^2")
        called = []

        def minimize(fn, params, args=(), **kw):
            called.append((fn, params, args))

            class R:
                pass
            r = R()
            r.params = params
            return r
        saved = (lmfit.minimize, lmfit.Parameters)
        lmfit.minimize, lmfit.Parameters = minimize, FakeParameters
        try:
            ok, val = call(zo._calculate_modulus_offset, mk_array(eng, rec), mk_array(eng, lnm), mk_array(eng, ws))
        finally:
            lmfit.minimize, lmfit.Parameters = saved
        valid = any(k == 1 for k in kinds) and not any(k == 2 for k in kinds)
        eng.check(ok == valid, "weights without a positive entry or with a negative entry are refused", lambda: "kinds %r -> %r" % (kinds, val))
        if not ok:
            eng.check(isinstance(val, ZHITError) and not called, "refusal is a ZHITError raised before the minimiser runs")
        else:
            # the objective handed to the minimiser is the weighted sum over *all* points (those with weight 0 drop out by themselves)
            eng.check(len(called) == 1, "the minimiser runs once")
            if len(called) == 1:
                fn, params, args = called[0]
                params.add("offset", off)
                ok2, got = call(lambda: fn(params, *args))
                eng.check(ok2, "the objective handed to the minimiser can be evaluated", lambda: "%r" % (got,))
                if ok2:
                    tot, want = 0, 0
                    for v in list(got.flat):
                        tot = tot + v
                    for i in range(n):
                        d = rec[i] + off - lnm[i]
                        want = want + ws[i] * d * d
                    eng.check(same(tot, want), "the offset is fitted to every point with a non-zero weight (objective = sum of weight * (reconstruction + offset - ln|X|)^2)",
                              lambda: "kinds %r: %r vs %r" % (kinds, tot, want))
        eng.reached("weights")
    return harness


def make_scaling_harness(n: int, admittance: bool):
    def harness(eng):
        import pyimpspec.analysis.zhit.offset as zo
        from sx.values import uf, SVal
        from sx import symnp
        eng.div_zero_policy = "assume"
        rec = [eng.real("rec%d" % i, npy=True) for i in range(n)]
        lnm = [eng.real("lnm%d" % i, npy=True) for i in range(n)]
        phase = [eng.real("phase%d" % i, npy=True) for i in range(n)]
        ws = [eng.real("w%d" % i, npy=True) for i in range(n)]
        X = [eng.complex("X%d" % i) for i in range(n)]
        for w in ws:
            eng.assume(w >= 0)
        tot = ws[0]
        for w in ws[1:]:
            tot = tot + w
        eng.assume(tot > 0)
        for x in X:
            eng.assume(x != 0)
        c = eng.real("c", npy=True)
        eng.assume(c > 0)
        L = eng.real("ln_c", npy=True)          # stands for ln(c): ln|cX| = ln|X| + ln c

        def offset_of(ln_fit, ln_exp, weights):
            # contract of the minimiser: the weighted least-squares offset
            num, den = 0, 0
            for a, b, w in zip(ln_fit, ln_exp, weights):
                num = num + w * (b - a)
                den = den + w
            return num / den

        def rect(mod, ph):
            # cmath.rect(r, phi) = r * cis(phi): linear in r
            out = []
            for r, p in zip(mod, ph):
                out.append(r * uf("cis", [p]))
            return mk_array(eng, out, complex)
        saved = (zo._calculate_modulus_offset, zo.rect)
        zo._calculate_modulus_offset, zo.rect = offset_of, rect
        try:
            base = zo._adjust_offset((mk_array(eng, rec), mk_array(eng, phase), mk_array(eng, lnm), mk_array(eng, ws), mk_array(eng, X, complex),
                                      admittance, "s", "i", "w"))
            # exp(a + ln c) = c * exp(a): instantiated on the exponents that occur
            off0 = offset_of(rec, lnm, ws)
            for r in rec:
                eng.axiom(symnp.exp(r + off0 + L).eq_term(symnp.exp(r + off0) * c))
            scaled = zo._adjust_offset((mk_array(eng, rec), mk_array(eng, phase), mk_array(eng, [v + L for v in lnm]), mk_array(eng, ws),
                                        mk_array(eng, [x * c for x in X], complex), admittance, "s", "i", "w"))
        finally:
            zo._calculate_modulus_offset, zo.rect = saved
        _nonvacuous(eng)
        for i in range(n):
            eng.check(same(scaled[1][i], base[1][i] * c), "scaling the data by c scales the reconstruction by c", lambda: "point %d" % i)
        if not admittance:      # (the invariance of the chi-squared formula itself, both representations, is decided under C09 'stats')
            eng.check(same(scaled[0], base[0]), "the pseudo chi-squared of a candidate does not depend on the scale")
    return harness


def make_smooth_harness(smoothing: str, num_points: int, order: int, n: int, again: bool = False, only_completes: bool = False):
    """the pure-Python smoothing filters leave linear data a + b*i unchanged (up to 1e-9 relative, which absorbs the rounding of
    the concrete kernel coefficients); the filters are linear, so the box |a|,|b| <= 1 covers every line by homogeneity"""
    def harness(eng):
        import pyimpspec.analysis.zhit.smoothing as sm
        eng.symbolic_pi = False          # the kernels are concrete numbers: pi is the double, not the symbolic constant
        a = eng.real("a", npy=True)
        b = eng.real("b", npy=True)
        for v in (a, b):
            eng.assume(v >= -1)
            eng.assume(v <= 1)
        data = [a + b * i for i in range(n)]
        lnw = [float(n - i) for i in range(n)]
        ok, out = call(sm._smooth_phase, smoothing, num_points, order, 3, mk_array(eng, lnw), mk_array(eng, data))
        eng.check(ok, "smoothing:completes", lambda: "%r" % (out,))
        if not ok:
            return
        if again:
            # the same filter once more in the same process (Z-HIT smooths one spectrum after the other): no state may be carried over
            ok, out = call(sm._smooth_phase, smoothing, num_points, order, 3, mk_array(eng, lnw), mk_array(eng, data))
            eng.check(ok, "smoothing:completes", lambda: "second call: %r" % (out,))
            if not ok:
                return
        tol = 1e-9 * (1 + n)
        out = list(out.flat) if hasattr(out, "flat") else list(out)
        eng.check(len(out) == n, "smoothing:one value per point")
        if only_completes:
            eng.reached("smoothing")
            return
        for i in range(min(n, len(out))):
            d = out[i] - data[i]
            eng.check((d <= tol) if not is_symbolic(d) else bool((d <= tol) & (d >= -tol)), "smoothing:linear (and constant) data are left unchanged",
                      lambda: "point %d: %r vs %r" % (i, out[i], data[i])) if is_symbolic(d) else eng.check(abs(d) <= tol, "smoothing:linear (and constant) data are left unchanged",
                                                                                                        lambda: "point %d: %r vs %r" % (i, out[i], data[i]))
        eng.reached("smoothing")
    return harness


def make_custom_weights_harness(n: int):
    """weights given by the caller are the weights used, whatever window name accompanies them: "the offset is determined only by points with
    non-zero weight" is a statement about the caller's weights"""
    def harness(eng):
        import pyimpspec.analysis.zhit.weights as zw
        ws = [eng.real("w%d" % i, npy=True) for i in range(n)]
        for w in ws:
            eng.assume(w >= 0)
        warr = mk_array(eng, ws)
        logf = mk_array(eng, [float(n - i) for i in range(n)])
        window = ("auto", "boxcar", "hann", "triang")[eng.choice(4, "window")]
        steps = []

        class Prog:
            def set_message(self, *a, **k):
                pass

            def increment(self, *a, **k):
                steps.append(1)
        ok, opts = call(zw._generate_window_options, warr, logf, window, 1.5, 3.0, Prog())
        eng.check(ok, "custom weights: accepted", lambda: "%r" % (opts,))
        if not ok:
            return
        eng.check(list(opts.keys()) == ["custom"], "custom weights: they are the only weights used", lambda: "window=%r -> options %r" % (window, list(opts.keys())))
        if "custom" in opts:
            got = list(opts["custom"].flat) if hasattr(opts["custom"], "flat") else list(opts["custom"])
            eng.check(len(got) == n and all(bool(same(g, w)) for g, w in zip(got, ws)), "custom weights: passed on unchanged")
        eng.check(len(steps) == len(opts), "custom weights: one progress step per option")
        eng.reached("custom")
    return harness


def obligations(tier: str):
    from sx.runner import Obligation
    import pyimpspec.analysis.zhit.reconstruction as zr
    import pyimpspec.analysis.zhit.offset as zo
    obs = []
    n = 3 if tier == "quick" else 6
    stubs = ["scipy.integrate.quad returns the exact integral of the given phase function; the interpolating spline is that function; at one explored point quad "
             "first demands up to 5 tenfold looser tolerances and up to 4 x 100 more subdivisions (IntegrationWarning with scipy's messages) before it succeeds",
             "lmfit.minimize replaced by the weighted least-squares offset it minimises; cmath.rect(r, phi) = r * cis(phi) with cis uninterpreted; "
             "exp(a + ln c) = c exp(a) and ln|cX| = ln|X| + ln c instantiated on the terms that occur"]
    for adm in (False, True):
        for lin in (False, True):
            obs.append(Obligation("reconstruct.%s.%s" % ("linear" if lin else "constant", "Y" if adm else "Z"), make_reconstruct_harness(n, lin, adm),
                                  bounds="%d symbolic ln(omega) values, %s phase with symbolic coefficients, %s" % (n, "linear" if lin else "constant", "admittance" if adm else "impedance"),
                                  functions=[zr._reconstruct], stubs=stubs, expect_reach=["non-vacuous"], mode="fresh"))
        obs.append(Obligation("scaling.%s" % ("Y" if adm else "Z"), make_scaling_harness(n, adm), bounds="%d points; all arrays, weights >= 0 with positive sum, scale factor symbolic" % n,
                              functions=[zo._adjust_offset], stubs=stubs, expect_reach=["non-vacuous"], mode="fresh", query_timeout_ms=60000))
    obs.append(Obligation("weights", make_weights_harness(n), bounds="%d points; each weight zero / positive / negative" % n,
                          functions=[zo._offset_residual, zo._calculate_modulus_offset], stubs=stubs, expect_reach=["weights"]))
    import pyimpspec.analysis.zhit.smoothing as sm
    import pyimpspec.analysis.zhit.smoothing.modified_sinc as ms
    import pyimpspec.analysis.zhit.smoothing.whittaker_henderson as wh
    combos = ((3, 2), (5, 2), (5, 4)) if tier == "quick" else ((3, 2), (5, 2), (5, 4), (7, 2), (7, 4), (9, 6))
    for smoothing in ("modsinc", "whithend"):
        for npts, order in combos:
            nn = 9 if tier == "quick" else 14
            obs.append(Obligation("smooth.%s.%d.%d" % (smoothing, npts, order), make_smooth_harness(smoothing, npts, order, nn),
                                  bounds="%s smoothing, num_points=%d, polynomial_order=%d, %d points a + b*i with symbolic a, b in [-1, 1]" % (smoothing, npts, order, nn),
                                  functions=[sm._smooth_phase, ms._smooth, ms._extend_data, ms._smooth_except_boundaries, ms.LinearRegression.calculate, wh._smooth, wh._solve],
                                  stubs=["kernel coefficients are the concrete floats the code computes (read as exact rationals); tolerance 1e-9 relative"],
                                  expect_reach=["smoothing"], mode="fresh"))
        obs.append(Obligation("smooth.%s.twice" % smoothing, make_smooth_harness(smoothing, 5, 2, 9, again=True),
                              bounds="%s smoothing applied twice in a row in one process (num_points=5, polynomial_order=2, 9 points): the second result obeys the same law" % smoothing,
                              functions=[sm._smooth_phase, ms._smooth, wh._smooth, wh._solve], expect_reach=["smoothing"], mode="fresh"))
    import pyimpspec.analysis.zhit.weights as zw
    obs.append(Obligation("window.custom", make_custom_weights_harness(n), bounds="%d symbolic non-negative custom weights together with window = auto / boxcar / hann / triang" % n,
                          functions=[zw._generate_window_options], expect_reach=["custom"]))
    for o in obs:
        o.replay = o.harness
    return obs


EXPLANATION = (
    "The analytic core of Z-HIT decided with z3 on the real code: ln(omega) values, phase coefficients, weights, data and the scale factor are solver "
    "variables; quadrature and splines are exact stubs of a given phase function, the offset minimiser is replaced by the weighted least-squares offset."
)
ASSUMPTIONS = ["quad of an exactly known integrand returns the exact integral", "lmfit.minimize returns the weighted least-squares offset", "floats as reals"]
OUTSIDE = ["the Savitzky-Golay (scipy) and LOWESS (statsmodels) smoothers; what the modified-sinc and Whittaker-Henderson filters do to data that are not linear",
           "_generate_weights (scipy Akima on window functions)", "real splines and quadrature; the 'few percent' clause for RC/RQ ladders"]


def replay(obligation: str, witness):
    from sx.concrete import run_concrete
    for tier in replay_tiers():
        for ob in obligations(tier):
            if ob.name == obligation:
                reproduced, msg, _ = run_concrete(ob.harness, witness)
                return reproduced, msg
    raise KeyError(obligation)
