"""C18 -- every documented option combination completes or is refused up front.

  progress.*   lemma (symbolic i, total, N, force, previous state): _update_every_N_percent only ever
               reports 0 <= progress <= 1 with a message and re-establishes its invariant;
               Progress.increment raises iff the count exceeds the total;
  zhit.*       the real perform_zhit driver (option validation, step accounting, stage drivers) over the
               product of option values, numerical kernels stubbed;
  kk.*         the real evaluate_log_F_ext driver with num_F_ext_evaluations, the log F_ext limits and
               the intermediate minima symbolic, test kernels stubbed.
An option combination must be refused by TypeError/ValueError before the first kernel runs (or by the
library's own error type) or complete; the progress count never exceeds the precomputed total.
"""
from __future__ import annotations

from typing import Any, Dict, List

from .common import call, same, is_symbolic, PathAbort, replay_tiers

PROP = "C18"


# --------------------------------------------------------------------------- progress lemma
def make_lemma_harness():
    def harness(eng):
        import pyimpspec.progress as pg
        total = eng.integer("total", 1, None)
        i = eng.integer("i", 0, None)
        eng.assume(i <= total)
        N = eng.real("N")
        eng.assume(N > 0)
        eng.assume(N <= 100)
        force = eng.choice(2, "force") == 1
        prev_kind = eng.choice(2, "prev.kind")
        if prev_kind == 0:
            prev = -1.0
        else:
            prev = eng.real("prev")
            eng.assume(prev >= 0)
            eng.assume(prev <= 1)
        seen = []
        saved_cb, saved_recent = dict(pg._CALLBACKS), pg._RECENT_PROGRESS
        pg._CALLBACKS.clear()
        pg._CALLBACKS[1] = lambda *a, **k: seen.append(k)
        pg._RECENT_PROGRESS = prev
        try:
            ok, res = call(pg._update_every_N_percent, i, total=total, N=N, force=force, message="msg")
            after = pg._RECENT_PROGRESS
        finally:
            pg._CALLBACKS.clear()
            pg._CALLBACKS.update(saved_cb)
            pg._RECENT_PROGRESS = saved_recent
        eng.check(ok, "progress update does not raise", lambda: "%r" % (res,))
        for k in seen:
            p = k.get("progress")
            eng.check(p >= 0, "reported progress >= 0", lambda: "%r" % (p,))
            eng.check(p <= 1, "reported progress <= 1", lambda: "%r" % (p,))
            eng.check(k.get("message") == "msg", "a message is delivered")
        inv = same(after, -1.0) if not is_symbolic(after) else ((after >= 0) & (after <= 1))
        if not is_symbolic(after):
            inv = (after == -1.0) or (0.0 <= after <= 1.0)
        eng.check(inv, "the recent-progress state stays -1 or within [0, 1]", lambda: "%r" % (after,))
        eng.reached("lemma")
    return harness


def make_increment_harness():
    def harness(eng):
        import pyimpspec.progress as pg
        total = eng.integer("total", 1, 50)
        start = eng.integer("start", 0, 50)
        step = eng.integer("step", 1, 5)
        eng.assume(start <= total)
        saved_cb, saved_recent = dict(pg._CALLBACKS), pg._RECENT_PROGRESS
        pg._CALLBACKS.clear()
        try:
            p = pg.Progress("m", total=total)
            p._i = start
            ok, res = call(p.increment, step)
            eng.check(ok == bool(start + step <= total), "increment raises iff the count exceeds the total", lambda: "%r" % (res,))
            if not ok:
                eng.check(isinstance(res, ValueError), "the refusal is a ValueError")
        finally:
            pg._CALLBACKS.clear()
            pg._CALLBACKS.update(saved_cb)
            pg._RECENT_PROGRESS = saved_recent
        eng.reached("lemma")
    return harness


# --------------------------------------------------------------------------- shared: progress capture
class Capture:
    def __init__(self, eng):
        self.eng = eng
        self.events: List[Dict[str, Any]] = []

    def __enter__(self):
        import pyimpspec.progress as pg
        self.pg = pg
        self.saved = (dict(pg._CALLBACKS), pg._RECENT_PROGRESS)
        pg._CALLBACKS.clear()
        pg._CALLBACKS[1] = lambda *a, **k: self.events.append(k)
        pg._RECENT_PROGRESS = -1.0
        return self

    def __exit__(self, *a):
        self.pg._CALLBACKS.clear()
        self.pg._CALLBACKS.update(self.saved[0])
        self.pg._RECENT_PROGRESS = self.saved[1]

    def check(self, tag):
        for k in self.events:
            p = k.get("progress")
            self.eng.check((p >= 0) and (p <= 1) if not is_symbolic(p) else ((p >= 0) & (p <= 1)), tag + ":progress fraction within [0, 1]", lambda: "%r" % (p,))
            self.eng.check(isinstance(k.get("message"), str), tag + ":a message is delivered")


def _data(n: int):
    import numpy as np
    from pyimpspec.data.data_set import DataSet
    f = np.logspace(3, 0, n) if n > 1 else np.array([10.0])
    Z = 100 + 50 / (1 + 1j * 2 * np.pi * f * 1e-2)
    return DataSet(f, Z)


# --------------------------------------------------------------------------- Z-HIT
SMOOTH = ("none", "lowess", "modsinc", "savgol", "whithend", "auto", "bogus")
INTERP = ("akima", "makima", "cubic", "pchip", "auto", "bogus")
WINDOW = ("auto", "boxcar", "bogus")


def make_zhit_harness(n_points: int):
    def harness(eng):
        import numpy as np
        import pyimpspec.analysis.zhit as zh
        import pyimpspec.analysis.zhit.weights as zw
        import pyimpspec.analysis.zhit.smoothing as zs
        import pyimpspec.analysis.zhit.interpolation as zi
        import pyimpspec.analysis.zhit.reconstruction as zr
        import pyimpspec.analysis.zhit.offset as zo
        from pyimpspec.exceptions import ZHITError
        smoothing = SMOOTH[eng.choice(len(SMOOTH), "smoothing")]
        interpolation = INTERP[eng.choice(len(INTERP), "interpolation")]
        window = WINDOW[eng.choice(len(WINDOW), "window")]
        custom = eng.choice(2, "custom_weights") == 1
        admittance = eng.choice(2, "admittance") == 1
        num_procs = (1, 4)[eng.choice(2, "num_procs")]
        num_points = int(eng.integer("num_points", 0, 3))
        polynomial_order = int(eng.integer("polynomial_order", 0, 3))
        data = _data(n_points)
        n = n_points
        calls: List[str] = []

        def gw(log_f, window, center, width):
            if window not in zw._WINDOW_FUNCTIONS:
                raise ZHITError("Unsupported window function")
            calls.append("weights")
            return np.ones(log_f.shape)

        def sp(smoothing, num_points, polynomial_order, num_iterations, ln_omega, phase):
            if smoothing not in ("none", "lowess", "modsinc", "savgol", "whithend"):
                raise ZHITError("Unsupported smoothing")
            calls.append("smooth")
            return phase

        class Interp:
            def __call__(self, x):
                return 0.0 * x

            def derivative(self, k):
                return self

        def ip(interpolation, ln_omega, phase):
            if interpolation not in ("akima", "makima", "cubic", "pchip"):
                raise ZHITError("Unsupported interpolation")
            calls.append("interpolate")
            return Interp()

        def rc(args):
            calls.append("reconstruct")
            return (np.zeros(n), args[3], args[4])

        def ao(args):
            calls.append("offset")
            return (float(len(calls)), np.ones(n, dtype=complex), args[6], args[7], args[8])

        class FakePool:
            def __init__(self, *a, **k):
                pass

            def __enter__(self):
                return self

            def __exit__(self, *a):
                return False

            def imap_unordered(self, fn, args):
                return [fn(a) for a in reversed(list(args))]

        saved = (zw._generate_weights, zs._smooth_phase, zi._interpolate_phase, zr._reconstruct, zo._adjust_offset, zr.Pool, zo.Pool)
        zw._generate_weights, zs._smooth_phase, zi._interpolate_phase, zr._reconstruct, zo._adjust_offset = gw, sp, ip, rc, ao
        zr.Pool = zo.Pool = FakePool
        try:
            with Capture(eng) as cap:
                ok, res = call(zh.perform_zhit, data, smoothing=smoothing, interpolation=interpolation, window=window, num_points=num_points,
                               polynomial_order=polynomial_order, weights=(np.ones(n) if custom else None), admittance=admittance, num_procs=num_procs)
            cap.check("zhit")
        finally:
            zw._generate_weights, zs._smooth_phase, zi._interpolate_phase, zr._reconstruct, zo._adjust_offset, zr.Pool, zo.Pool = saved
        desc = lambda: "smoothing=%s interpolation=%s window=%s custom=%r admittance=%r num_points=%d order=%d -> %r after %r" % (
            smoothing, interpolation, window, custom, admittance, num_points, polynomial_order, res, calls[:3])
        if ok:
            eng.check(isinstance(res, zh.ZHITResult), "zhit:returns a result")
        elif isinstance(res, ZHITError):
            pass
        else:
            eng.check(isinstance(res, (TypeError, ValueError)) and not calls, "zhit:refused up front or completed", desc)
        eng.reached("zhit")
    return harness


# --------------------------------------------------------------------------- circuit fitting driver
METHOD_OPTS = ("leastsq", "cg", "auto", ["leastsq"], ["leastsq", "nelder"], ["leastsq", "nelder", "powell"], "bogus", ["leastsq", "bogus"], 5)
WEIGHT_OPTS = ("boukamp", "auto", ["boukamp"], ["boukamp", "unity"], ["boukamp", "unity", "modulus"], "bogus", ["unity", "bogus"], None)


def make_fit_harness():
    def harness(eng):
        import pyimpspec.analysis.fitting as fit
        from pyimpspec import parse_cdc
        from pyimpspec.exceptions import FittingError
        from .c16 import FakeParameters, FakeFit
        method = METHOD_OPTS[eng.choice(len(METHOD_OPTS), "method")]
        weight = WEIGHT_OPTS[eng.choice(len(WEIGHT_OPTS), "weight")]
        num_procs = (1, 3)[eng.choice(2, "num_procs")]
        data = _data(4)
        calls: List[str] = []

        def worker(args):
            calls.append("%s/%s" % (args[3], args[4]))
            return (parse_cdc("R{R=%d}" % (100 + len(calls))), float(len(calls)), FakeFit(FakeParameters()), args[3], args[4], "")

        class FakePool:
            def __init__(self, *a, **k):
                pass

            def __enter__(self):
                return self

            def __exit__(self, *a):
                return False

            def imap(self, fn, args, chunksize=1):
                items = [fn(a) for a in args]

                class It:
                    def next(self, timeout=None):
                        if not items:
                            raise StopIteration
                        return items.pop(0)
                return It()
        saved = (fit._fit_process, fit.Pool, fit._extract_parameters)
        fit._fit_process, fit.Pool = worker, FakePool
        fit._extract_parameters = lambda circuit, f: {}
        try:
            with Capture(eng) as cap:
                ok, res = call(fit.fit_circuit, parse_cdc("R"), data, method=method, weight=weight, num_procs=num_procs)
            cap.check("fit")
        finally:
            fit._fit_process, fit.Pool, fit._extract_parameters = saved
        desc = lambda: "method=%r weight=%r num_procs=%d -> %r after %r" % (method, weight, num_procs, res, calls[:3])
        if ok:
            eng.check(isinstance(res, fit.FitResult), "fit:returns a result")
            n_m = len(fit._METHODS) if method == "auto" else (len(method) if isinstance(method, list) else 1)
            n_w = len(fit._WEIGHT_FUNCTIONS) if weight == "auto" else (len(weight) if isinstance(weight, list) else 1)
            eng.check(len(calls) == n_m * n_w, "fit:every method/weight combination is tried once", lambda: "%d fits for %d x %d" % (len(calls), n_m, n_w))
        elif isinstance(res, FittingError):
            pass
        else:
            eng.check(isinstance(res, (TypeError, ValueError)) and not calls, "fit:refused up front or completed", desc)
        eng.reached("fit")
    return harness


# --------------------------------------------------------------------------- Kramers-Kronig driver
TESTS = ("complex", "real", "imaginary", "complex-inv", "real-inv", "imaginary-inv", "cnls", "bogus")


def make_kk_harness(n_points: int, part: str, symbolic_minima: bool = False, quick: bool = True):
    def harness(eng):
        import numpy as np
        import pyimpspec.analysis.kramers_kronig.exploratory as ex
        from pyimpspec.exceptions import KramersKronigError
        from pyimpspec import parse_cdc
        if part == "options":
            # every test kind / option flag, without the F_ext search (and with too few evaluations, which must be refused)
            test = TESTS[eng.choice(len(TESTS), "test")]
            add_l = eng.choice(2, "add_inductance") == 1
            admittance = eng.choice(2, "admittance") == 1
            rapid = False
            num_procs = (1, 3)[eng.choice(2, "num_procs")]
            rc_kind = eng.choice(3, "num_RCs.kind")
            nfc = (0, 5, -3)[eng.choice(3, "num_F_ext_evaluations.kind")]
        else:
            # the F_ext search: number of evaluations, limits and intermediate minima symbolic
            test = ("complex", "cnls")[eng.choice(2, "test")]
            add_l, admittance = True, False
            rapid = eng.choice(2, "rapid") == 1
            num_procs = (1, 3)[eng.choice(2, "num_procs")]
            rc_kind = eng.choice(2, "num_RCs.kind")
            NF = (-14, -10, -9, 0, 9, 10, 11, 14) if quick else tuple(range(-14, 15))
            nfc = NF[eng.choice(len(NF), "num_F_ext_evaluations")]
        num_RCs = [None, [2, 3], [2, 999]][rc_kind]
        LIMITS = ((-1.0, 1.0), (0.0, 1.0), (-1.0, 0.3), (0.5, 1.0)) if quick else ((-1.0, 1.0), (-0.5, 1.0), (0.0, 1.0), (-1.0, 0.3), (0.5, 1.0), (-1.0, 0.0))
        lo, hi = LIMITS[eng.choice(len(LIMITS), "limits")]
        data = _data(n_points)
        calls: List[str] = []
        dummy = parse_cdc("R{R=100}")

        def one_test(args):
            calls.append("test")
            return (args[4] if test != "cnls" else args[3], dummy)

        def inv_test(args):
            calls.append("test")
            return (args[4], dummy)

        def cnls_test(args):
            calls.append("test")
            return (args[3], dummy)

        class It:
            def __init__(self, items):
                self.items = list(items)

            def next(self, timeout=None):
                if not self.items:
                    raise StopIteration
                return self.items.pop(0)

        class FakePool:
            def __init__(self, *a, **k):
                pass

            def __enter__(self):
                return self

            def __exit__(self, *a):
                return False

            def imap(self, fn, args, chunk=1):
                return It(fn(a) for a in args)

            def map(self, fn, args):
                return [fn(a) for a in args]

        def target(baseline):
            calls.append("target")
            T = (-1, 0, 3, 12)
            return T[eng.choice(len(T), "target_num_RC")]

        def statistic(fits, f, test, target_num_RC):
            calls.append("statistic")
            return float(len(calls))

        def cubic(x, y):
            return (np.array(x, dtype=float) if not any(is_symbolic(v) for v in x) else x, y)

        k = [0]

        def pick(x, y, xi, yi):
            # the located minimum: either end of the interval, its middle, or (symbolically, thorough tier) anywhere inside
            k[0] += 1
            xs_ = [float(v) for v in x]
            opts = [min(xs_), xs_[len(xs_) // 2]] if quick else [min(xs_), max(xs_), (min(xs_) + max(xs_)) / 2, xs_[len(xs_) // 2]]
            if symbolic_minima:
                m = eng.real("minimum%d" % k[0])
                eng.assume(m >= min(xs_))
                eng.assume(m <= max(xs_))
                return m
            return opts[eng.choice(len(opts), "minimum%d" % k[0])]

        import lmfit

        def minimize(fn, params, method=None, args=(), max_nfev=None, **kw):
            calls.append("minimize")
            n_calls = (max_nfev + 1) if max_nfev else 3
            for _ in range(n_calls):
                fn(params, *args)

            class R:
                pass
            return R()

        names = ["_leastsq_test", "_inversion_test", "_cnls_test", "_estimate_target_num_RC", "_calculate_statistic", "_fit_cubic_and_interpolate",
                 "_pick_minimum", "Pool"]
        saved = {nm: getattr(ex, nm) for nm in names if hasattr(ex, nm)}
        saved_min = lmfit.minimize
        ex._leastsq_test, ex._inversion_test, ex._cnls_test = one_test, inv_test, cnls_test
        ex._estimate_target_num_RC, ex._calculate_statistic, ex._fit_cubic_and_interpolate, ex._pick_minimum = target, statistic, cubic, pick
        ex.Pool = FakePool
        lmfit.minimize = minimize
        try:
            with Capture(eng) as cap:
                ok, res = call(ex.evaluate_log_F_ext, data, test=test, num_RCs=num_RCs, add_inductance=add_l, admittance=admittance,
                               min_log_F_ext=lo, max_log_F_ext=hi, num_F_ext_evaluations=nfc, rapid_F_ext_evaluations=rapid, num_procs=num_procs)
            cap.check("kk")
        finally:
            for nm, v in saved.items():
                setattr(ex, nm, v)
            lmfit.minimize = saved_min
        desc = lambda: "test=%s num_RCs=%r L=%r Y=%r nF=%d rapid=%r procs=%d limits=(%r, %r) -> %s: %s after %r" % (
            test, num_RCs, add_l, admittance, nfc, rapid, num_procs, lo, hi, type(res).__name__, res, calls[:3])
        if ok:
            eng.check(isinstance(res, list) and len(res) >= 1, "kk:returns results")
        elif isinstance(res, KramersKronigError):
            pass
        else:
            eng.check(isinstance(res, (TypeError, ValueError)) and not calls, "kk:refused up front or completed", desc)
        eng.reached("kk")
    return harness


def obligations(tier: str):
    from sx.runner import Obligation
    import pyimpspec.progress as pg
    import pyimpspec.analysis.zhit as zh
    import pyimpspec.analysis.zhit.weights as zw
    import pyimpspec.analysis.zhit.smoothing as zs
    import pyimpspec.analysis.zhit.interpolation as zi
    import pyimpspec.analysis.zhit.reconstruction as zr
    import pyimpspec.analysis.zhit.offset as zo
    import pyimpspec.analysis.kramers_kronig.exploratory as ex
    obs = [
        Obligation("progress.lemma", make_lemma_harness(), bounds="any 0 <= i <= total, total >= 1, 0 < N <= 100, force, previous state -1 or in [0, 1]",
                   functions=[pg._update_every_N_percent], expect_reach=["lemma"]),
        Obligation("progress.increment", make_increment_harness(), bounds="total <= 50, start <= total, step 1..5",
                   functions=[pg.Progress.increment], expect_reach=["lemma"]),
    ]
    zf = [zh.perform_zhit, zw._generate_window_options, zs._generate_smoothing_options, zi._generate_interpolation_options,
          zr._reconstruct_modulus_data, zo._adjust_modulus_offset]
    zstubs = ["numerical kernels stubbed: _generate_weights, _smooth_phase, _interpolate_phase, _reconstruct, _adjust_offset return arrays of the "
              "right shape (unknown option names still raise ZHITError); multiprocessing.Pool returns results in reversed order"]
    for n in ((3,) if tier == "quick" else (1, 2, 3, 6)):
        obs.append(Obligation("zhit.n%d" % n, make_zhit_harness(n),
                              bounds="%d points; smoothing %r x interpolation %r x window %r x custom weights x admittance x num_procs {1,4} x "
                                     "num_points, polynomial_order in 0..3" % (n, SMOOTH, INTERP, WINDOW), functions=zf, stubs=zstubs,
                              expect_reach=["zhit"], max_paths=3000000))
    kf = [ex.evaluate_log_F_ext, ex._perform_tests, ex._use_least_squares_fitting, ex._use_matrix_inversion, ex._use_cnls, ex._wrapper,
          ex._evaluate_log_F_ext_using_custom_approach, ex._evaluate_log_F_ext_using_lmfit, ex._log_F_ext_residual]
    kstubs = ["test kernels (_leastsq_test, _inversion_test, _cnls_test), _estimate_target_num_RC (-1, 0, 3 or 12), _calculate_statistic, "
              "_fit_cubic_and_interpolate, _pick_minimum (any value inside the limits), lmfit.minimize (calls the residual max_nfev+1 times) and Pool stubbed"]
    for n in ((6,) if tier == "quick" else (4, 6, 9)):
        obs.append(Obligation("kk.options.n%d" % n, make_kk_harness(n, "options", quick=(tier == "quick")),
                              bounds="%d points; test kinds %r x num_RCs {auto, [2,3], [2,999]} x add_inductance x admittance x num_procs {1,3} x "
                                     "num_F_ext_evaluations {0, 5, -3}" % (n, TESTS), functions=kf, stubs=kstubs, expect_reach=["kk"], max_paths=3000000))
        obs.append(Obligation("kk.fext.n%d" % n, make_kk_harness(n, "fext", quick=(tier == "quick")),
                              bounds="%d points; tests {complex, cnls} x num_RCs {auto, [2,3]} x rapid x num_procs {1,3} x num_F_ext_evaluations %s x "
                                     "pairs of log F_ext limits (valid and invalid) x located minima at an end / a grid point" % (n, "{-14,-10,-9,0,9,10,11,14}" if tier == "quick" else "-14..14"), functions=kf, stubs=kstubs,
                              expect_reach=["kk"], max_paths=3000000))
    import pyimpspec.analysis.fitting as fit
    obs.append(Obligation("fit.options", make_fit_harness(), bounds="fit_circuit driver: method %r x weight %r x num_procs {1,3}; the worker is a stub" % (METHOD_OPTS, WEIGHT_OPTS),
                          functions=[fit.fit_circuit, fit._convert_intermediate_result], stubs=["_fit_process returns a fixed-shape result; Pool.imap keeps submission order"],
                          expect_reach=["fit"], max_paths=100000))
    from . import c11
    import pyimpspec.analysis.zhit.smoothing as sm
    import pyimpspec.analysis.zhit.smoothing.modified_sinc as ms
    import pyimpspec.analysis.zhit.smoothing.whittaker_henderson as wh
    for smoothing in ("modsinc", "whithend"):
        for npts, n in ((3, 2), (3, 3), (8, 8), (15, 12)):
            obs.append(Obligation("zhit.smooth.short.%s.%d.%d" % (smoothing, npts, n), c11.make_smooth_harness(smoothing, npts, 2, n, only_completes=True),
                                  bounds="the real %s smoother with num_points=%d on a spectrum of only %d points (symbolic linear data): completes with one value per point" % (smoothing, npts, n),
                                  functions=[sm._smooth_phase, ms._smooth, ms._extend_data, wh._smooth], expect_reach=["smoothing"], mode="fresh"))
    for o in obs:
        o.replay = o.harness
    return obs


EXPLANATION = (
    "Bounded symbolic execution with z3 of the real progress accounting and analysis drivers: step indices, totals, option values, the number "
    "of F_ext evaluations, the log F_ext limits and the intermediate minima are solver variables / solver-driven choices, the numerical kernels are "
    "stubs; on every path z3 decides whether a reported progress fraction can leave [0, 1] and the exploration shows whether any exception other "
    "than an up-front TypeError/ValueError or the library's own error type can escape (in particular Progress' own 'count exceeds total')."
)
ASSUMPTIONS = ["numerical kernels are replaced by shape-correct stubs: failures inside real numerics are outside the claim",
               "lmfit.minimize calls the residual at most max_nfev+1 times"]
OUTSIDE = ["the calculate_drt drivers; fit_circuit options other than method / weight / num_procs", "failures inside the real numerical kernels (e.g. splines on too few points)"]


def replay(obligation: str, witness):
    from sx.concrete import run_concrete
    for tier in replay_tiers():
        for ob in obligations(tier):
            if ob.name == obligation:
                reproduced, msg, _ = run_concrete(ob.harness, witness)
                return reproduced, msg
    raise KeyError(obligation)
