"""C13 -- DRT results carry the physics (PARTIAL: the algebra of the TR-NNLS method).

Decided with z3 on the real tr_nnls code over symbolic angular frequencies, time constants, spectra and
scale factors (scipy's nnls replaced by a deterministic uninterpreted function with g >= 0):
  * column j of the real _generate_A_matrix is delta_ln_tau_j times the real (or minus the imaginary)
    part of a unit RC element at tau_j -- a delta-shaped DRT at tau = RC reproduces the RC element;
  * _generate_model_impedance equals R_inf + R_pol * A.g in the fitted part and copies the other part;
  * the whole calculate_drt_tr_nnls driver: scaling the impedance by c scales gamma by c and leaves tau
    unchanged, scaling the frequencies by s scales tau by 1/s and leaves gamma unchanged, gamma >= 0
    whenever R_pol >= 0, and R_pol > 0 for series-R + one or two RC elements with positive resistances.
"""
from __future__ import annotations

from typing import Any, List

from .common import call, same, close, is_symbolic, PathAbort, mk_array, replay_tiers

PROP = "C13"


def _omegas(eng, n):
    ws = [eng.real("w%d" % i, npy=True) for i in range(n)]
    for i, w in enumerate(ws):
        eng.assume(w > 0)
        if i:
            eng.assume(ws[i - 1] > w)
    return ws


def _nonvacuous(eng):
    if not eng.possible(True):
        raise PathAbort("vacuous")
    eng.reached("non-vacuous")


def make_column_harness(n: int, imaginary: bool):
    def harness(eng):
        import pyimpspec.analysis.drt.tr_nnls as tr
        from sx.values import SVal, ZERO, ONE
        eng.div_zero_policy = "assume"
        ws = _omegas(eng, n)
        taus = [eng.real("tau%d" % i, npy=True) for i in range(n)]
        ds = [eng.real("dlt%d" % i, npy=True) for i in range(n)]
        for t in taus:
            eng.assume(t > 0)
        A = tr._generate_A_matrix(mk_array(eng, ws), mk_array(eng, taus), mk_array(eng, ds), imaginary)
        _nonvacuous(eng)
        j_ = SVal(ZERO, ONE, npy=True)
        for i in range(n):
            for j in range(n):
                unit = 1 / (1 + j_ * ws[i] * taus[j])
                want = ds[j] * (-(unit.imag) if imaginary else unit.real)
                eng.check(same(A[i, j], want), "a column is delta_ln_tau times the unit RC response at that time constant",
                          lambda: "A[%d,%d] = %r vs %r" % (i, j, A[i, j], want))
    return harness


def make_model_harness(n: int, imaginary: bool):
    def harness(eng):
        import pyimpspec.analysis.drt.tr_nnls as tr
        from sx.symnp import dot
        eng.div_zero_policy = "assume"
        ws = _omegas(eng, n)
        taus = [eng.real("tau%d" % i, npy=True) for i in range(n)]
        ds = [eng.real("dlt%d" % i, npy=True) for i in range(n)]
        g = [eng.real("g%d" % i, npy=True) for i in range(n)]
        Z = [eng.complex("Z%d" % i) for i in range(n)]
        for t in taus:
            eng.assume(t > 0)
        R_inf, R_pol = eng.real("R_inf", npy=True), eng.real("R_pol", npy=True)
        w, t, d = mk_array(eng, ws), mk_array(eng, taus), mk_array(eng, ds)
        A = tr._generate_A_matrix(w, t, d, imaginary)
        Zf = tr._generate_model_impedance(w, t, d, None, mk_array(eng, g), mk_array(eng, Z, complex), R_inf, R_pol, imaginary)
        Ag = dot(A, mk_array(eng, g))
        _nonvacuous(eng)
        for i in range(n):
            if imaginary:
                eng.check(same(Zf[i].imag, -(R_pol * Ag[i])), "model impedance = R_pol * A.g in the fitted part")
                eng.check(same(Zf[i].real, Z[i].real), "the other part is copied from the data")
            else:
                eng.check(same(Zf[i].real, R_inf + R_pol * Ag[i]), "model impedance = R_inf + R_pol * A.g in the fitted part")
                eng.check(same(Zf[i].imag, Z[i].imag), "the other part is copied from the data")
    return harness


class NNLS:
    """deterministic uninterpreted stand-in for scipy.optimize.nnls: equal inputs give the same non-negative vector"""

    def __init__(self, eng, light=False):
        self.eng = eng
        self.light = light
        self.calls: List[Any] = []

    def __call__(self, A, b, maxiter=None):
        from sx.symnp import asarr
        A, b = asarr(A), asarr(b)
        flat = list(A.flat) + list(b.flat)
        for old, g in self.calls:
            if len(old) == len(flat) and all(self.eng.implied(same(x, y), light=self.light) if is_symbolic(same(x, y)) else bool(same(x, y)) for x, y in zip(old, flat)):
                return g
        k = len(self.calls)
        g = [self.eng.real("g%d_%d" % (k, i), npy=True) for i in range(b.size)]
        for v in g:
            self.eng.axiom((v >= 0).term)          # fresh variables: trivially consistent, no query needed
        garr = mk_array(self.eng, g)
        self.calls.append((flat, garr))
        return garr


def _data(eng, fs, Z):
    from pyimpspec.data.data_set import DataSet
    return DataSet(list(fs), list(Z))


def make_scaling_harness(n: int, imaginary: bool, what: str):
    def harness(eng):
        import pyimpspec.analysis.drt.tr_nnls as tr
        from sx import symnp
        eng.div_zero_policy = "assume"
        fs = [eng.real("f%d" % i, npy=False) for i in range(n)]
        for i, f in enumerate(fs):
            eng.assume(f > 0)
            if i:
                eng.assume(fs[i - 1] > f)
        Z = [eng.complex("Z%d" % i, npy=False) for i in range(n)]
        lam = eng.real("lambda", npy=False)
        eng.assume(lam > 0)
        c = eng.real("scale", npy=False)
        eng.assume(c > 0)
        eng.assume(Z[-1].real - Z[0].real != 0)
        nn = NNLS(eng)
        saved = tr._solve
        tr._solve = nn
        try:
            base = tr.calculate_drt_tr_nnls(_data(eng, fs, Z), mode="imaginary" if imaginary else "real", lambda_value=lam)
            if what == "impedance":
                other = tr.calculate_drt_tr_nnls(_data(eng, fs, [z * c for z in Z]), mode="imaginary" if imaginary else "real", lambda_value=lam)
            else:
                # ln(x/s) = ln(x) - ln(s): instantiate the logarithm's functional equation on the time constants that occur
                from sx.shims import PI
                if eng.symbolic:
                    ls = symnp.log(c)
                    for f in fs:
                        t = 1 / (2 * PI * f)
                        eng.axiom(symnp.log(t / c).eq_term(symnp.log(t) - ls))
                other = tr.calculate_drt_tr_nnls(_data(eng, [f * c for f in fs], Z), mode="imaginary" if imaginary else "real", lambda_value=lam)
        finally:
            tr._solve = saved
        _nonvacuous(eng)
        eng.check(len(nn.calls) == 1, "the regularised system is the same for the rescaled data (nnls sees identical inputs)", lambda: "%d distinct systems" % len(nn.calls))
        for i in range(n):
            if what == "impedance":
                eng.check(same(other.time_constants[i], base.time_constants[i]), "scaling the impedance leaves tau unchanged")
                eng.check(same(other.gammas[i], base.gammas[i] * c), "scaling the impedance scales gamma")
            else:
                eng.check(same(other.time_constants[i] * c, base.time_constants[i]), "scaling the frequencies scales tau inversely")
                eng.check(same(other.gammas[i], base.gammas[i]), "scaling the frequencies leaves gamma unchanged")
        # non-negativity where the method promises it
        R_pol = Z[-1].real - Z[0].real
        if bool(R_pol > 0):
            for i in range(n):
                eng.check(base.gammas[i] >= 0, "gamma is non-negative when the polarisation resistance is positive")
    return harness


def make_lambda_harness(n: int, imaginary: bool, route: str):
    """automatic regularisation: whatever the search evaluates, the DRT returned for the chosen lambda is the DRT a fixed
    lambda of that value gives (the search must not disturb the system that is solved afterwards)"""
    def harness(eng):
        import pyimpspec.analysis.drt.tr_nnls as tr
        from sx import symnp
        eng.div_zero_policy = "assume"
        fs = [eng.real("f%d" % i, npy=False) for i in range(n)]
        for i, f in enumerate(fs):
            eng.assume(f > 0)
            if i:
                eng.assume(fs[i - 1] > f)
        Z = [eng.complex("Z%d" % i, npy=False) for i in range(n)]
        lam = eng.real("lambda", npy=False)
        trial = [eng.real("trial%d" % i, npy=False) for i in range(2)]
        for v in [lam] + trial:
            eng.assume(v > 0)
        eng.assume(Z[-1].real - Z[0].real != 0)
        nn = NNLS(eng, light=True)
        probed = []

        def corner_search(P, minimum, maximum):
            for t in trial:
                probed.append(P(t))
            return lam

        def suggest(lambda_values, solution_norms):
            probed.append(solution_norms)
            return lam
        saved = (tr._solve, tr._l_curve_corner_search, tr._suggest_lambda, tr._generate_lambda_values, tr.norm, tr.log)
        fresh = []

        def opaque(x):
            # the objective values only steer the (stubbed) search: norm and log return an arbitrary real
            fresh.append(eng.real("opaque%d" % len(fresh), npy=True))
            return fresh[-1]
        tr.norm = tr.log = opaque
        tr._solve = nn
        tr._l_curve_corner_search = corner_search
        tr._suggest_lambda = suggest
        tr._generate_lambda_values = lambda **kw: mk_array(eng, trial)
        mode = "imaginary" if imaginary else "real"
        try:
            fixed = tr.calculate_drt_tr_nnls(_data(eng, fs, Z), mode=mode, lambda_value=lam)
            auto = tr.calculate_drt_tr_nnls(_data(eng, fs, Z), mode=mode, lambda_value=-2.0 if route == "lcurve" else -1.0)
        finally:
            tr._solve, tr._l_curve_corner_search, tr._suggest_lambda, tr._generate_lambda_values, tr.norm, tr.log = saved
        _nonvacuous(eng)
        eng.check(len(probed) > 0, "the search evaluated trial values")
        eng.check(same(auto.lambda_value, lam), "the selected regularisation parameter is reported")
        for i in range(n):
            eng.check(same(auto.gammas[i], fixed.gammas[i]), "the DRT for the selected lambda is the DRT a fixed lambda of that value gives",
                      lambda: "gamma[%d]: %r vs %r" % (i, auto.gammas[i], fixed.gammas[i]))
            eng.check(same(auto.time_constants[i], fixed.time_constants[i]), "the time constants do not depend on the lambda search")
    return harness


def make_mrq_harness(order: str):
    """m(RQ)-fit: the DRT written down for a fitted circuit is the sum of the DRTs of its parallel elements, each computed from
    that element's own parameters: a Gaussian of width W centred at tau = R*C for (RC), the analytical RQ distribution centred at
    (R*Y)^(1/n) for (RQ) -- whatever the order of the elements"""
    def harness(eng):
        import numpy as np
        import pyimpspec.analysis.drt.mrq_fit as mq
        from pyimpspec import parse_cdc
        from sx import symnp
        from sx.values import pi_val
        eng.div_zero_policy = "assume"
        R1, C1 = eng.real("R_rc"), eng.real("C_rc")
        R2, Y2, n2 = eng.real("R_rq"), eng.real("Y_rq"), eng.real("n_rq")
        for v in (R1, C1, R2, Y2):
            eng.assume(v > 0)
        eng.assume(n2 > 0)
        eng.assume(n2 < 0.98)                      # (|n| within 0.01 of 1 is treated as a capacitor by design)
        W = eng.real("W")
        eng.assume(W > 0)
        circuit = parse_cdc({"rc.rq": "R(RC)(RQ)", "rq.rc": "R(RQ)(RC)", "rc": "R(RC)", "rq": "R(RQ)"}[order])
        els = circuit.get_elements()
        k = 1
        for part in order.split("."):
            if part == "rc":
                els[k].set_values(R=R1)
                els[k + 1]._set_limits({"C": 0.0}, {"C": float("inf")})
                els[k + 1].set_values(C=C1)
            else:
                els[k].set_values(R=R2)
                els[k + 1]._set_limits({"Y": 0.0}, {"Y": float("inf")})
                els[k + 1].set_values(Y=Y2, n=n2)
            k += 2
        f = np.array([100.0, 10.0, 1.0])
        tau, gamma = mq._calculate_tau_gamma(circuit, f, W, 1)
        _nonvacuous(eng)
        pi = pi_val() if eng.symbolic else 3.141592653589793
        want = [0 for _ in range(len(tau))]
        for i, t in enumerate(list(tau.flat) if hasattr(tau, "flat") else list(tau)):
            if "rc" in order:
                x = symnp.log(t / (R1 * C1)) / W
                want[i] = want[i] + R1 / (W * symnp.sqrt(pi)) * symnp.exp(-(x ** 2))
            if "rq" in order:
                t0 = (R2 * Y2) ** (1.0 / n2)
                want[i] = want[i] + (R2 / (2 * pi)) * symnp.sin((1 - n2) * pi) / (symnp.cosh(n2 * symnp.log(t / t0)) - symnp.cos((1 - n2) * pi))
        g = list(gamma.flat)
        eng.check(len(g) == len(want), "mrq:one gamma per time constant")
        for i in range(min(len(g), len(want))):
            eng.check(close(g[i], want[i]), "mrq:the DRT is the sum of each parallel element's own distribution (Gaussian at R*C / RQ distribution at (R*Y)^(1/n))",
                      lambda: "tau index %d: %r vs %r" % (i, g[i], want[i]))
        eng.reached("mrq")
    return harness


def make_corner_harness(extra: int):
    """golden-section L-curve corner search: for an arbitrary objective (symbolic values) the regularisation parameters it evaluates
    start as a strictly increasing quadruple spanning [minimum, maximum], later ones lie strictly inside it and are new, and the
    parameter returned is one of those evaluated"""
    def harness(eng):
        import pyimpspec.analysis.drt.utility as du
        eng.div_zero_policy = "assume"
        seen = []

        def P(lm):
            if len(seen) >= 4 + extra:
                raise PathAbort("bound on the number of objective evaluations reached")
            seen.append(lm)
            k = len(seen)
            if k == 4:
                eng.check(all(float(seen[i]) < float(seen[i + 1]) for i in range(3)) and float(seen[0]) == lo and float(seen[3]) == hi,
                          "corner:the search starts from an increasing quadruple spanning the interval", lambda: "%r" % (seen,))
            elif k > 4:
                eng.check(lo < float(lm) < hi, "corner:every later evaluation lies strictly inside the interval", lambda: "%r" % (lm,))
                eng.check(all(float(lm) != float(x) for x in seen[:-1]), "corner:every evaluation is at a new parameter", lambda: "%r in %r" % (lm, seen[:-1]))
            eng.reached("corner")
            xi, eta = eng.real("xi%d" % k, npy=True), eng.real("eta%d" % k, npy=True)
            if not eng.symbolic:
                import numpy
                xi, eta = numpy.float64(xi), numpy.float64(eta)        # the real objective returns numpy scalars
            return (xi, eta)
        lo, hi = 1e-10, 1.0
        ok, res = call(du._l_curve_corner_search, P, lo, hi)
        eng.check(ok, "corner:the search does not fail", lambda: "%r" % (res,))
        if ok:
            eng.check(any(float(res) == float(x) for x in seen), "corner:the parameter returned was evaluated", lambda: "%r" % (res,))
    return harness


def make_rpol_harness(k: int):
    """R_pol > 0 for R0 + k parallel RC elements with positive resistances (k = 1, 2)"""
    def harness(eng):
        import pyimpspec.analysis.drt.tr_nnls as tr
        from sx.values import SVal, ZERO, ONE
        eng.div_zero_policy = "assume"
        ws = _omegas(eng, 3)
        R0 = eng.real("R0", npy=True)
        Rs = [eng.real("R%d" % (i + 1), npy=True) for i in range(k)]
        ts = [eng.real("tau%d" % (i + 1), npy=True) for i in range(k)]
        for v in Rs + ts:
            eng.assume(v > 0)
        j_ = SVal(ZERO, ONE, npy=True)
        Z = []
        for w in ws:
            z = R0 + 0 * j_
            for R, t in zip(Rs, ts):
                z = z + R / (1 + j_ * w * t)
            Z.append(z)
        Zn, R_inf, R_pol = tr._normalize_impedance(mk_array(eng, Z, complex))
        _nonvacuous(eng)
        eng.check(R_pol > 0, "the polarisation resistance of an RC ladder with positive resistances is positive", lambda: "%r" % (R_pol,))
        eng.check(same(Zn[0].real, 0), "the normalised spectrum starts at zero real part")
        eng.check(same(R_pol, Z[-1].real - Z[0].real) and same(R_inf, Z[0].real), "R_inf is the first real part and R_pol the span of the real parts")
    return harness


def obligations(tier: str):
    from sx.runner import Obligation
    import pyimpspec.analysis.drt.tr_nnls as tr
    funcs = [tr._generate_A_matrix, tr._generate_model_impedance, tr._normalize_impedance, tr._calculate_delta_ln_tau, tr._generate_b_vector,
             tr._generate_tikhonov_matrix, tr.calculate_drt_tr_nnls]
    stubs = ["scipy.optimize.nnls (_solve) is a deterministic uninterpreted function: equal inputs give the same vector, g >= 0",
             "ln is uninterpreted; for frequency scaling the functional equation ln(x/s) = ln x - ln s is instantiated on the time constants that occur"]
    obs = []
    n = 2 if tier == "quick" else 4
    for im in (False, True):
        tag = "imaginary" if im else "real"
        obs.append(Obligation("column.%s" % tag, make_column_harness(n + 1, im), bounds="%d x %d design matrix, mode %s" % (n + 1, n + 1, tag), functions=funcs,
                              expect_reach=["non-vacuous"], mode="fresh"))
        obs.append(Obligation("model.%s" % tag, make_model_harness(n + 1, im), bounds="%d points, mode %s" % (n + 1, tag), functions=funcs, expect_reach=["non-vacuous"], mode="fresh"))
        for what in ("impedance", "frequency"):
            obs.append(Obligation("scaling.%s.%s" % (what, tag), make_scaling_harness(n + 1, im, what),
                                  bounds="calculate_drt_tr_nnls on %d symbolic points, fixed symbolic lambda > 0, scale factor > 0, mode %s" % (n + 1, tag),
                                  functions=funcs, stubs=stubs, expect_reach=["non-vacuous"], mode="fresh", query_timeout_ms=60000))
        for route in ("lcurve", "custom"):
            obs.append(Obligation("lambda.%s.%s" % (route, tag), make_lambda_harness(n + 1, im, route),
                                  bounds="calculate_drt_tr_nnls on %d symbolic points, automatic lambda via the %s route with the search replaced by 2 symbolic "
                                         "trial values and a symbolic selected value, mode %s" % (n + 1, route, tag),
                                  functions=funcs + [tr._l_curve_P, tr._test_lambda_values], stubs=stubs + [
                                      "_l_curve_corner_search / _suggest_lambda / _generate_lambda_values: evaluate the real objective at 2 symbolic trial values, return a symbolic lambda",
                                      "norm / log inside the L-curve objective return arbitrary reals (their values only steer the stubbed search)"],
                                  expect_reach=["non-vacuous"], mode="fresh", query_timeout_ms=60000))
    # (a 'corner' obligation on _l_curve_corner_search with a symbolic objective exists below as make_corner_harness but is not registered:
    #  the Menger-curvature comparisons are quartic with square roots and z3 answers unknown after two iterations)
    import pyimpspec.analysis.drt.mrq_fit as mq
    for order in ("rc", "rq", "rc.rq", "rq.rc"):
        obs.append(Obligation("mrq.%s" % order, make_mrq_harness(order), bounds="m(RQ)-fit _calculate_tau_gamma for R + %s with symbolic R, C, Y, n in (0, 0.98), W > 0; 3 time constants" % order,
                              functions=[mq._calculate_tau_gamma], stubs=["exp, ln, sqrt, sin, cos, cosh and non-integer powers are uninterpreted with eager congruence"],
                              expect_reach=["mrq"], mode="fresh", query_timeout_ms=60000))
    for k in (1, 2):
        obs.append(Obligation("rpol.%d" % k, make_rpol_harness(k), bounds="R0 + %d RC element(s), 3 frequencies" % k, functions=funcs, expect_reach=["non-vacuous"], mode="fresh"))
    for o in obs:
        o.replay = True
    return obs


EXPLANATION = (
    "Algebraic identities of the TR-NNLS method decided with z3 on the real code: frequencies, time constants, spectra, the regularisation parameter and "
    "scale factors are solver variables; the non-negative least-squares solver is a deterministic uninterpreted function."
)
ASSUMPTIONS = ["nnls contract: deterministic, g >= 0", "fixed regularisation parameter (the lambda search is outside)", "floats as reals"]
OUTSIDE = ["area and peak positions of an actual NNLS solution; the lambda selection heuristics themselves (L-curve corner search, the custom approach)", "the Loewner method, BHT, TR-RBF, the fitting step of m(RQ)-fit (its tau/gamma formula is covered)", "everything the property says about integrals and peaks"]


def replay(obligation: str, witness):
    """numeric confirmation on the plain library with the real nnls"""
    import numpy as np
    from pyimpspec import DataSet
    from pyimpspec.analysis.drt.tr_nnls import calculate_drt_tr_nnls, _generate_A_matrix
    kind = obligation.split(".")[0]
    mode = "imaginary" if obligation.endswith("imaginary") else "real"
    if kind != "column":
        # a spectrum with a small and one with a large series resistance; then the symbolic harness itself on the witness
        out = []
        for R0 in (10.0, 400.0):
            ok, msg = _numeric(obligation, kind, mode, R0)
            out.append(msg)
            if ok:
                return True, msg
        from sx.concrete import run_concrete
        for tier in replay_tiers():
            for ob in obligations(tier):
                if ob.name == obligation:
                    reproduced, msg, _ = run_concrete(ob.harness, witness)
                    if reproduced:
                        return True, msg + " (harness on the plain library at the witness values, nnls stubbed)"
        return False, "; ".join(out)
    return _numeric(obligation, kind, mode, 10.0)


def _numeric(obligation, kind, mode, R0):
    import numpy as np
    from pyimpspec import DataSet
    from pyimpspec.analysis.drt.tr_nnls import calculate_drt_tr_nnls, _generate_A_matrix, _normalize_impedance
    f = np.logspace(4, -1, 26)
    w = 2 * np.pi * f
    Z = R0 + 100 / (1 + 1j * w * 1e-2) + 50 / (1 + 1j * w * 1.0)
    if kind == "rpol":
        Zn, R_inf, R_pol = _normalize_impedance(Z.copy())
        want = Z[-1].real - Z[0].real
        return (not (R_pol > 0)) or abs(R_pol - want) > 1e-9 * abs(want) or abs(R_inf - Z[0].real) > 1e-9, "R0=%g: R_inf %.6g R_pol %.6g, expected %.6g %.6g" % (R0, R_inf, R_pol, Z[0].real, want)
    if kind == "lambda":
        lam = 1e-3
        import pyimpspec.analysis.drt.tr_nnls as tr
        saved = (tr._l_curve_corner_search, tr._suggest_lambda)
        tr._l_curve_corner_search = lambda P, minimum, maximum: (P(1e-4), P(1e-2), lam)[-1]
        tr._suggest_lambda = lambda lv, sn: lam
        try:
            fixed = calculate_drt_tr_nnls(DataSet(f, Z), mode=mode, lambda_value=lam)
            auto = calculate_drt_tr_nnls(DataSet(f, Z), mode=mode, lambda_value=-2.0 if ".lcurve." in obligation else -1.0)
        finally:
            tr._l_curve_corner_search, tr._suggest_lambda = saved
        err = float(np.max(np.abs(auto.gammas - fixed.gammas)) / np.max(np.abs(fixed.gammas)))
        return err > 1e-9 or auto.lambda_value != lam, "R0=%g: DRT after the search deviates from the fixed-lambda DRT by %.3g (relative)" % (R0, err)
    if kind == "column":
        tau = 1 / w
        d = np.ones_like(tau) * 0.3
        A = _generate_A_matrix(w, tau, d, mode == "imaginary")
        unit = 1 / (1 + 1j * np.outer(w, tau))
        want = d * (-unit.imag if mode == "imaginary" else unit.real)
        err = float(np.max(np.abs(A - want)))
        return err > 1e-9, "largest deviation of the design matrix from the unit RC response: %.3g" % err
    if kind == "scaling":
        base = calculate_drt_tr_nnls(DataSet(f, Z), mode=mode, lambda_value=1e-3)
        if "impedance" in obligation:
            other = calculate_drt_tr_nnls(DataSet(f, Z * 7.0), mode=mode, lambda_value=1e-3)
            err = float(np.max(np.abs(other.gammas - 7.0 * base.gammas)) / np.max(np.abs(base.gammas)))
            err = max(err, float(np.max(np.abs(other.time_constants / base.time_constants - 1))))
        else:
            other = calculate_drt_tr_nnls(DataSet(f * 7.0, Z), mode=mode, lambda_value=1e-3)
            err = float(np.max(np.abs(other.gammas - base.gammas)) / np.max(np.abs(base.gammas)))
            err = max(err, float(np.max(np.abs(other.time_constants * 7.0 / base.time_constants - 1))))
        neg = float(np.min(base.gammas))
        return (err > 1e-6 or neg < 0), "relative deviation under rescaling %.3g, smallest gamma %.3g" % (err, neg)
    if kind == "model":
        res = calculate_drt_tr_nnls(DataSet(f, Z), mode=mode, lambda_value=1e-3)
        part = res.impedances.imag if mode == "real" else res.impedances.real
        ref = Z.imag if mode == "real" else Z.real
        err = float(np.max(np.abs(part - ref)))
        return err > 1e-9, "the part that is not fitted deviates from the data by %.3g" % err
    return False, "no numeric replay for this obligation"
