"""C08 -- every analysis result is internally consistent with the data it came from.

The real result-assembly code of the analysis entry points runs on a data set whose unmasked *and*
masked points are symbolic (masked points carry their own variables); the numerical stages are
replaced by stubs that return arbitrary symbolic circuits / arrays.  z3 decides whether
  * result.frequencies can differ from the unmasked frequencies of the input,
  * residuals can differ from (Z_exp - Z_fit)/|Z_exp|,
  * pseudo chi-squared can differ from the sum of the squared moduli of those residuals,
  * reported impedances can differ from the attached circuit's impedance,
and the terms of every result field are scanned for the variables of the masked points
(non-interference).  The input data set and circuit must be left untouched.
"""
from __future__ import annotations

import copy as _copy
from typing import Any, Dict, List

from .common import call, same, close, is_symbolic, PathAbort, mk_array, replay_tiers
from .c16 import FakeParameters, FakeParam, FakeFit

PROP = "C08"


# --------------------------------------------------------------------------- symbolic data sets
def make_data(eng, n_unmasked: int, n_masked: int, concrete: bool = False):
    """descending symbolic frequencies, symbolic impedances, a mask; masked variables are named m.*"""
    from pyimpspec.data.data_set import DataSet
    n = n_unmasked + n_masked
    if concrete:
        fs = [float(2 ** (n - i)) for i in range(n)]
        # points whose modulus and inverse squared modulus are exact in binary floating point (concrete floats are read as
        # exact rationals, so 1/25 computed in floats would differ from the rational 1/25)
        zs = [(4 + 0j, -2j, 8j, -16 + 0j, 0.5j, 32 + 0j)[i] for i in range(n)]
        masked_idx = {1, 3} if n_masked == 2 else ({1} if n_masked == 1 else set())
        d = DataSet(list(fs), list(zs), mask={i: True for i in masked_idx}, label="data")
        return d, fs, zs, [i for i in range(n) if i not in masked_idx]
    masked_idx = {1, 3} if n_masked == 2 else ({1} if n_masked == 1 else set())
    masked_idx = {i for i in masked_idx if i < n}
    while len(masked_idx) < n_masked:
        masked_idx.add(n - 1 - len(masked_idx))
    fs, zs = [], []
    for i in range(n):
        tag = ("m.%d" if i in masked_idx else "u.%d") % i
        f = eng.real(tag + ".f", npy=False)
        z = eng.complex(tag + ".Z", npy=False)
        eng.assume(f > 0)
        if i:
            eng.assume(fs[-1] > f)
        eng.assume(z != 0)
        fs.append(f)
        zs.append(z)
    d = DataSet(list(fs), list(zs), mask={i: True for i in masked_idx}, label="data")
    unmasked = [i for i in range(n) if i not in masked_idx]
    return d, fs, zs, unmasked


def snapshot(d):
    return (list(d.get_frequencies(masked=None).flat), list(d.get_impedances(masked=None).flat), dict(d.get_mask()), d.get_label(), d.get_path())


def same_snapshot(eng, a, b, tag):
    ok = len(a[0]) == len(b[0]) and a[2] == b[2] and a[3] == b[3] and a[4] == b[4]
    eng.check(ok, tag + ":input data set untouched (shape, mask, label)")
    if ok:
        for x, y in zip(a[0] + a[1], b[0] + b[1]):
            eng.check(same(x, y), tag + ":input data set untouched (values)")


def term_vars(x) -> set:
    """names of the solver variables occurring in a symbolic value / array / nested container"""
    import z3
    from sx.values import SVal, SBool, SInt, isc
    out = set()

    def walk_term(t):
        stack, seen = [t], set()
        while stack:
            a = stack.pop()
            i = a.get_id()
            if i in seen:
                continue
            seen.add(i)
            if z3.is_const(a) and a.decl().kind() == z3.Z3_OP_UNINTERPRETED:
                out.add(str(a))
            else:
                stack.extend(a.children())

    def walk(v):
        if isinstance(v, SVal):
            for c in (v.nr, v.ni, v.dr, v.di):
                if not isc(c):
                    walk_term(c)
        elif isinstance(v, (SBool, SInt)):
            walk_term(v.term)
        elif hasattr(v, "flat") and not isinstance(v, (str, bytes)) and getattr(v, "ndim", 0) > 0:
            for e in v.flat:
                walk(e)
        elif isinstance(v, (list, tuple)):
            for e in v:
                walk(e)
        elif isinstance(v, dict):
            for e in v.values():
                walk(e)
    walk(x)
    return out


def atoms_over_masked(eng) -> set:
    """names of uninterpreted atoms whose arguments mention a masked variable (transitively)"""
    bad = set()
    changed = True
    while changed:
        changed = False
        for key, table in eng.scratch.items():
            if not key.startswith("uf:"):
                continue
            for args, res in table:
                names = term_vars(res)
                if names <= bad:
                    continue
                av = term_vars(args)
                if any(v.startswith("m.") for v in av) or (av & bad):
                    bad |= names
                    changed = True
    return bad


def check_no_masked(eng, value, tag):
    vs = term_vars(value)
    bad = {v for v in vs if v.startswith("m.")} | (vs & atoms_over_masked(eng)) if eng.symbolic else set()
    eng.check(not bad, tag + ":masked points do not occur in the result", lambda: "found %r" % (sorted(bad)[:4],))


def check_result(eng, res, d, fs, zs, unmasked, tag, chisqr_is_sum=True, circuit=None):
    from sx.symnp import asarr
    F = list(asarr(res.frequencies).flat)
    Zf = list(asarr(res.impedances).flat)
    R = list(asarr(res.residuals).flat)
    eng.check(len(F) == len(unmasked) and len(Zf) == len(unmasked) and len(R) == len(unmasked), tag + ":one entry per unmasked point")
    if not (len(F) == len(unmasked) and len(Zf) == len(unmasked) and len(R) == len(unmasked)):
        return
    tot = 0
    for k, i in enumerate(unmasked):
        eng.check(same(F[k], fs[i]), tag + ":frequencies are the unmasked frequencies of the input")
        want = (zs[i] - Zf[k]) / abs(zs[i])
        eng.check(close(R[k], want), tag + ":residuals are (Z_data - Z_model)/|Z_data|", lambda: "point %d: %r vs %r" % (k, R[k], want))
        # |residual|^2 = |Z_data - Z_model|^2 / |Z_data|^2 with |z|^2 = re^2 + im^2 (the defining axiom of the modulus atom)
        dz = zs[i] - Zf[k]
        tot = tot + (dz.real * dz.real + dz.imag * dz.imag) / (zs[i].real * zs[i].real + zs[i].imag * zs[i].imag)
    if chisqr_is_sum:
        eng.check(close(res.pseudo_chisqr, tot), tag + ":pseudo chi-squared is the sum of the squared moduli of the residuals",
                  lambda: "%r vs %r" % (res.pseudo_chisqr, tot))
    if circuit is not None:
        Zc = list(circuit.get_impedances(mk_array(eng, [fs[i] for i in unmasked])).flat)
        for k in range(len(unmasked)):
            eng.check(close(Zf[k], Zc[k]), tag + ":reported impedances are the attached circuit's impedance")
    for name in ("frequencies", "impedances", "residuals", "pseudo_chisqr"):
        check_no_masked(eng, getattr(res, name), tag)


# --------------------------------------------------------------------------- Kramers-Kronig
def make_kk_harness(test: str, admittance: bool):
    def harness(eng):
        import pyimpspec.analysis.kramers_kronig.exploratory as ex
        from pyimpspec import parse_cdc
        eng.div_zero_policy = "assume"
        d, fs, zs, unmasked = make_data(eng, 4, 1)
        before = snapshot(d)
        made = []

        def kernel(args):
            c = parse_cdc("RK")
            r, k = c.get_elements()
            r.set_lower_limits(R=float("-inf"))
            r.set_values(R=eng.real("fit.R%d" % len(made)))
            k.set_values(R=eng.real("fit.K%d" % len(made)), tau=eng.real("fit.tau%d" % len(made)))
            made.append(c)
            return (args[4], c)
        saved = (ex._leastsq_test, ex._inversion_test)
        ex._leastsq_test = ex._inversion_test = kernel
        try:
            out = ex.evaluate_log_F_ext(d, test=test, num_RCs=[2, 3], admittance=admittance, num_F_ext_evaluations=0, num_procs=1)
        finally:
            ex._leastsq_test, ex._inversion_test = saved
        if not eng.possible(True):
            raise PathAbort("vacuous")
        eng.check(len(out) == 1 and len(out[0][1]) == 2, "kk:one result per requested num_RC")
        for res in out[0][1]:
            check_result(eng, res, d, fs, zs, unmasked, "kk", circuit=res.circuit)
        same_snapshot(eng, before, snapshot(d), "kk")
        eng.reached("kk")
    return harness


# --------------------------------------------------------------------------- Z-HIT
def make_zhit_harness(admittance: bool):
    def harness(eng):
        import numpy as np
        import pyimpspec.analysis.zhit as zh
        import pyimpspec.analysis.zhit.weights as zw
        import pyimpspec.analysis.zhit.smoothing as zs_
        import pyimpspec.analysis.zhit.interpolation as zi
        import pyimpspec.analysis.zhit.reconstruction as zr
        import pyimpspec.analysis.zhit.offset as zo
        from sx.symnp import SArr
        eng.div_zero_policy = "assume"
        d, fs, zs, unmasked = make_data(eng, 3, 2)
        before = snapshot(d)
        n = len(unmasked)

        class Interp:
            def __call__(self, x):
                return 0.0

            def derivative(self, k):
                return self

        def rc(args):
            return (mk_array(eng, [eng.real("rec.%d" % i, npy=True) for i in range(n)]), args[3], args[4])

        def off(ln_fit, ln_exp, weights):
            return eng.real("offset", npy=True)

        def rect(mod, phase):
            return mk_array(eng, [eng.complex("fit.%d" % i) for i in range(n)], complex)
        saved = (zw._generate_weights, zs_._smooth_phase, zi._interpolate_phase, zr._reconstruct, zo._calculate_modulus_offset, zo.rect)
        zw._generate_weights = lambda log_f, window, center, width: np.ones(n)
        zs_._smooth_phase = lambda smoothing, a, b, c, ln_omega, phase: phase
        zi._interpolate_phase = lambda interpolation, ln_omega, phase: Interp()
        zr._reconstruct, zo._calculate_modulus_offset, zo.rect = rc, off, rect
        try:
            res = zh.perform_zhit(d, smoothing="none", interpolation="akima", window="boxcar", admittance=admittance, num_procs=1)
        finally:
            zw._generate_weights, zs_._smooth_phase, zi._interpolate_phase, zr._reconstruct, zo._calculate_modulus_offset, zo.rect = saved
        if not eng.possible(True):
            raise PathAbort("vacuous")
        check_result(eng, res, d, fs, zs, unmasked, "zhit")
        same_snapshot(eng, before, snapshot(d), "zhit")
        eng.reached("zhit")
    return harness


# --------------------------------------------------------------------------- circuit fitting
def make_fit_harness(cdc: str, with_expr: bool, methods=("leastsq",), probe_last: bool = False):
    def harness(eng):
        import lmfit
        import pyimpspec.analysis.fitting as fit
        from pyimpspec import parse_cdc
        eng.div_zero_policy = "assume"
        d, fs, zs, unmasked = make_data(eng, 3, 1, concrete=len(methods) > 1)
        before = snapshot(d)
        circuit = parse_cdc(cdc)
        start: Dict[Any, Dict[str, Any]] = {}
        for k, e in enumerate(circuit.get_elements()):
            for key in e.get_values():
                # finite symbolic limits everywhere; the first parameter also takes infinite limits
                lo = eng.float_any("e%d.%s.lower" % (k, key), kinds=("finite", "-inf") if k == 0 else ("finite",))
                up = eng.float_any("e%d.%s.upper" % (k, key), kinds=("finite", "+inf") if k == 0 else ("finite",))
                v = eng.real("e%d.%s.value" % (k, key))
                eng.assume(lo < up)
                eng.assume(lo <= v)
                eng.assume(v <= up)
                e._set_limits({key: lo}, {key: up}) if hasattr(e, "_set_limits") else None
                e.set_values(**{key: v})
                e.set_fixed(**{key: eng.choice(2, "e%d.%s.fixed" % (k, key)) == 1})
            start[k] = dict(values=e.get_values(), lower=e.get_lower_limits(), upper=e.get_upper_limits(), fixed=e.are_fixed())
        idents = fit.generate_fit_identifiers(circuit)
        names = [m[key] for e, m in idents.items() for key in e.get_values()]
        exprs = {}
        if with_expr and len(names) >= 2:
            exprs = {names[1]: "2 * %s" % names[0]}

        exprs_before = dict(exprs)
        begun, handed = [], []

        def minimize(fn, params, method=None, args=(), max_nfev=None, **kw):
            # lmfit's contract: varied parameters end inside [min, max], fixed ones keep their value, expr parameters follow their expression
            begun.append({nm: p.value for nm, p in params.items() if p.expr is None})
            handed.append({nm: bool(p.vary) for nm, p in params.items() if p.expr is None})
            for nm, p in params.items():
                if p.expr is not None:
                    continue
                if p.vary:
                    w = eng.real(("w." if len(begun) == 1 else "w%d." % len(begun)) + nm)
                    if p.min is not None and not (isinstance(p.min, float) and p.min == float("-inf")):
                        eng.assume(w >= p.min)
                    if p.max is not None and not (isinstance(p.max, float) and p.max == float("inf")):
                        eng.assume(w <= p.max)
                    p.value = w
            def follow():
                for nm, p in params.items():
                    if p.expr is not None:
                        p.value = eval(p.expr, {}, {k: q.value for k, q in params.items()})
                        p.vary = False
            follow()
            fn(params, *args)          # the residual is evaluated at the returned point ...
            if probe_last:
                # ... but an optimiser need not *end* there (scalar minimisers probe displaced points for the Hessian afterwards):
                # the last evaluation happens somewhere else inside the limits, then the result is reported
                final = {nm: p.value for nm, p in params.items()}
                for nm, p in params.items():
                    if p.expr is None and p.vary:
                        q = eng.real(("probe." if len(begun) == 1 else "probe%d." % len(begun)) + nm)
                        if p.min is not None and not (isinstance(p.min, float) and p.min == float("-inf")):
                            eng.assume(q >= p.min)
                        if p.max is not None and not (isinstance(p.max, float) and p.max == float("inf")):
                            eng.assume(q <= p.max)
                        p.value = q
                follow()
                fn(params, *args)
                for nm, p in params.items():
                    p.value = final[nm]
            f = FakeFit(params)
            f.ndata, f.chisqr = 2 * len(args[1]), 1.0
            return f
        saved = (lmfit.minimize, lmfit.Parameters)
        lmfit.minimize, lmfit.Parameters = minimize, FakeParameters
        try:
            ok, res = call(fit.fit_circuit, circuit, d, method=methods[0] if len(methods) == 1 else list(methods), weight="boukamp", num_procs=1,
                           constraint_expressions=exprs or None)
        finally:
            lmfit.minimize, lmfit.Parameters = saved
        if not eng.possible(True):
            raise PathAbort("vacuous")
        eng.check(ok, "fit:completes", lambda: "%s: %s" % (type(res).__name__, res))
        if not ok:
            return
        eng.check(exprs == exprs_before, "fit:the constraint expressions passed in are left untouched", lambda: "%r -> %r" % (exprs_before, exprs))
        eng.check(len(begun) == len(methods), "fit:one fit per method/weight combination")
        # the optimiser is handed the free parameters of the circuit passed in as varying and the fixed ones as constant
        for k, (e, m) in enumerate(idents.items()):
            for key in e.get_values():
                for h in handed:
                    if m[key] in h:
                        eng.check(h[m[key]] == (not start[k]["fixed"][key]), "fit:exactly the free parameters are varied", lambda: "%s: vary=%r, fixed in the input=%r" % (
                            m[key], h[m[key]], start[k]["fixed"][key]))
        for later in begun[1:]:
            eng.check(set(later) == set(begun[0]), "fit:every method/weight combination is handed the same free and constrained parameters",
                      lambda: "%r vs %r" % (sorted(later), sorted(begun[0])))
            for nm, v in later.items():
                if nm not in begun[0]:
                    continue
                eng.check(same(v, begun[0][nm]), "fit:every method/weight combination starts from the values of the circuit passed in", lambda: nm)
        check_result(eng, res, d, fs, zs, unmasked, "fit", circuit=res.circuit)
        same_snapshot(eng, before, snapshot(d), "fit")
        # the circuit passed in is left untouched
        for k, e in enumerate(circuit.get_elements()):
            now = dict(values=e.get_values(), lower=e.get_lower_limits(), upper=e.get_upper_limits(), fixed=e.are_fixed())
            for field in ("values", "lower", "upper", "fixed"):
                for key in now[field]:
                    eng.check(same(now[field][key], start[k][field][key]), "fit:the circuit passed in is left untouched", lambda: "%d.%s.%s" % (k, field, key))
        eng.check(res.circuit is not circuit, "fit:a new circuit is returned")
        # constraints on the returned circuit
        new_idents = fit.generate_fit_identifiers(res.circuit)
        vals = {}
        for k, (e, m) in enumerate(new_idents.items()):
            lo, up = e.get_lower_limits(), e.get_upper_limits()
            for key, v in e.get_values().items():
                vals[m[key]] = v
                if m[key] in exprs:
                    continue
                eng.check((lo[key] <= v) and (v <= up[key]) if not is_symbolic(v) else bool((v >= lo[key]) & (v <= up[key]) if is_symbolic(v >= lo[key]) and is_symbolic(v <= up[key]) else ((v >= lo[key]) and (v <= up[key]))),
                          "fit:fitted values lie within their limits", lambda: "%s" % m[key])
                if start[k]["fixed"][key]:
                    eng.check(same(v, start[k]["values"][key]), "fit:fixed parameters keep their initial value", lambda: "%s" % m[key])
        for nm, ex_ in exprs.items():
            eng.check(same(vals[nm], eval(ex_, {}, vals)), "fit:constraint expressions hold for the returned values", lambda: nm)
        # the table reports exactly the returned circuit's values
        ext = res.circuit.generate_element_identifiers(running=False)
        for e in ext:
            row = res.parameters[res.circuit.get_element_name(e, ext)]
            for key, v in e.get_values().items():
                eng.check(same(row[key].value, v), "fit:the parameter table reports the returned circuit's values")
        eng.reached("fit")
    return harness


def obligations(tier: str):
    from sx.runner import Obligation
    import pyimpspec.analysis.kramers_kronig.exploratory as ex
    import pyimpspec.analysis.zhit as zh
    import pyimpspec.analysis.zhit.offset as zo
    import pyimpspec.analysis.fitting as fit
    import pyimpspec.analysis.utility as au
    import pyimpspec.data.data_set as ds
    common = [au._calculate_residuals, au._calculate_pseudo_chisqr, au._boukamp_weight, ds.DataSet.get_frequencies, ds.DataSet.get_impedances]
    obs = []
    for test in (("complex", "real-inv") if tier == "quick" else ("complex", "real", "imaginary", "complex-inv", "real-inv", "imaginary-inv")):
        for adm in (False, True):
            obs.append(Obligation("kk.%s.%s" % (test, "Y" if adm else "Z"), make_kk_harness(test, adm),
                                  bounds="evaluate_log_F_ext, test %s, %s, num_RCs [2,3], no F_ext search; 4 unmasked + 1 masked symbolic points; the test kernel returns "
                                         "an R-K circuit with symbolic parameters" % (test, "admittance" if adm else "impedance"),
                                  functions=common + [ex.evaluate_log_F_ext, ex._perform_tests, ex._use_least_squares_fitting, ex._use_matrix_inversion],
                                  stubs=["_leastsq_test / _inv_test return an arbitrary circuit"], expect_reach=["kk"], mode="fresh"))
    for adm in (False, True):
        obs.append(Obligation("zhit.%s" % ("Y" if adm else "Z"), make_zhit_harness(adm),
                              bounds="perform_zhit, %s; 3 unmasked + 2 masked symbolic points; reconstruction, offset and rect() return arbitrary symbolic arrays"
                                     % ("admittance (incl. the offset shift for negative real parts)" if adm else "impedance"),
                              functions=common + [zh.perform_zhit, zo._adjust_offset, zo._adjust_modulus_offset],
                              stubs=["_generate_weights, _smooth_phase, _interpolate_phase, _reconstruct, _calculate_modulus_offset, rect are stubs"],
                              expect_reach=["zhit"], mode="fresh"))
    for cdc, we in ((("R(RC)", False), ("R(RC)", True)) if tier == "quick" else (("R(RC)", False), ("R(RC)", True), ("R(RQ)", False), ("RL", True))):
        obs.append(Obligation("fit.%s.%s" % (cdc, "expr" if we else "plain"), make_fit_harness(cdc, we),
                              bounds="fit_circuit(%s), method leastsq, weight boukamp%s; start values, limits (finite/inf), fixed flags symbolic; 3 unmasked + 1 masked points"
                                     % (cdc, ", one constraint expression" if we else ""),
                              functions=common + [fit.fit_circuit, fit._fit_process, fit._to_lmfit, fit._from_lmfit, fit._residual, fit._convert_intermediate_result,
                                                  fit._extract_parameters],
                              stubs=["lmfit.minimize replaced by its contract: varied parameters end anywhere inside [min, max], fixed ones keep their value, "
                                     "expr parameters follow their expression; lmfit.Parameters is a name->parameter mapping"],
                              expect_reach=["fit"], mode="fresh", max_paths=1000000))
    for cdc in (("RC",) if tier == "quick" else ("RC", "R(RC)")):
        obs.append(Obligation("fit.%s.probe" % cdc, make_fit_harness(cdc, False, ("leastsq",), probe_last=True),
                              bounds="fit_circuit(%s): as fit.*.plain, and the optimiser's last residual evaluation happens at a symbolic point other than the one it reports" % cdc,
                              functions=common + [fit.fit_circuit, fit._fit_process, fit._to_lmfit, fit._from_lmfit, fit._residual, fit._convert_intermediate_result],
                              stubs=["lmfit.minimize by contract; it evaluates the residual at a second symbolic point inside the limits after the point it reports"],
                              expect_reach=["fit"], mode="fresh", max_paths=1000000))
    for cdc, ms in ((("R", ("leastsq", "nelder")),) if tier == "quick" else (("R", ("leastsq", "nelder", "powell")), ("RC", ("leastsq", "nelder")))):
        obs.append(Obligation("fit.%s.multi" % cdc, make_fit_harness(cdc, False, ms),
                              bounds="fit_circuit(%s), methods %s tried one after the other in the calling process (num_procs=1), weight boukamp; start values, limits, fixed "
                                     "flags symbolic; 3 unmasked + 1 masked concrete points" % (cdc, "/".join(ms)),
                              functions=common + [fit.fit_circuit, fit._fit_process, fit._to_lmfit, fit._from_lmfit, fit._residual, fit._convert_intermediate_result,
                                                  fit._extract_parameters],
                              stubs=["lmfit.minimize replaced by its contract (a fresh set of fitted values per call)", "ln is strictly increasing (sort key)"],
                              expect_reach=["fit"], mode="fresh", max_paths=1000000))
    for o in obs:
        o.replay = o.harness
    return obs


EXPLANATION = (
    "Bounded symbolic execution with z3 of the real result-assembly code: data points (masked ones with their own variables), fitted parameters and "
    "stage outputs are solver variables; z3 decides whether any identity between frequencies, residuals, pseudo chi-squared and model impedances "
    "can fail, and the solver terms of every result field are scanned for variables of masked points (syntactic non-interference)."
)
ASSUMPTIONS = ["numerical stages are stubs returning arbitrary values of the right shape", "floats as reals; |z|^2 = re^2 + im^2 for the modulus atom"]
OUTSIDE = ["DRT result classes (BHT, TR-RBF, m(RQ)-fit, TR-NNLS, LM)", "the numbers the numerical stages produce", "the F_ext search (C18)"]


def replay(obligation: str, witness):
    from sx.concrete import run_concrete
    for tier in replay_tiers():
        for ob in obligations(tier):
            if ob.name == obligation:
                reproduced, msg, _ = run_concrete(ob.harness, witness)
                return reproduced, msg
    raise KeyError(obligation)
