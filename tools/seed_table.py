#!/usr/bin/env python3
"""tools/seed_table.py: print the markdown table of DESIGN.md section 6 from /verif/seeded/*/meta.json"""
import glob, json, os, re
rows = []
for d in sorted(glob.glob("/verif/seeded/*-*"), key=lambda p: (os.path.basename(p).split("-")[0], int(os.path.basename(p).split("-")[1]))):
    m = json.load(open(os.path.join(d, "meta.json")))
    name = os.path.basename(d)
    breaks = m["breaks"].replace("|", "/")
    caught = (m.get("caught_by") or "").replace("|", "/") or "quick tier (exit %s)" % m.get("quick_check_exit")
    rows.append("| %s | %s | %s |" % (name, breaks, caught))
print("| change | what it breaks | caught by |\n|---|---|---|")
print("\n".join(rows))
