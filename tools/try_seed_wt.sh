#!/bin/sh
# tools/try_seed_wt.sh <PROP> <patch.diff> [extra check args]: development helper -- like try_seed.sh, but applies the change in the scratch worktree
# /tmp/wt_try (created on demand) and points the loader at it (SX_REPO_SRC), with evidence written to /tmp/ev_try, so that /repo and /verif/evidence
# stay untouched while other checks are running.  A change is only *kept* after tools/try_seed.sh confirmed it against /repo itself.
PROP=$1; PATCH=$2; shift 2
WT=/tmp/wt_try
[ -d $WT ] || git -C /repo worktree add -q --detach $WT HEAD || exit 9
git -C $WT checkout -q --detach $(git -C /repo rev-parse HEAD) && git -C $WT checkout -- . || exit 9
git -C $WT apply "$PATCH" || { echo "patch does not apply"; exit 9; }
cd /verif
SX_REPO_SRC=$WT/src SX_EVIDENCE_DIR=/tmp/ev_try ./check $PROP "$@" > /tmp/try_seed_wt_$PROP.log 2>&1
rc=$?
git -C $WT checkout -- .
echo "check $PROP exit=$rc"
grep -E "^(VIOLATION|KNOWN-FINDING|INCONCLUSIVE|HARNESS|  obligation|  REPRODUCED)" /tmp/try_seed_wt_$PROP.log | cut -c1-400 | head -12
tail -1 /tmp/try_seed_wt_$PROP.log
exit $rc
