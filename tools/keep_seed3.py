#!/usr/bin/env python3
"""tools/keep_seed3.py <table.tsv>: round-3 keeper.  Each line: tag <TAB> k <TAB> property <TAB> check_exit <TAB> caught_by <TAB> breaks <TAB> needs.
Stores /tmp/seed3/<tag>.out/{patch_k.diff,demo_k.py} as /verif/seeded/<property>-<n>/ (n = next free number) with a meta.json, provided
tools/proc_seed.py recorded that the demonstration discriminates (exit 0 without / non-zero with the change) and that no stable_pass test of
the pinned suite is lost with the change applied."""
import glob, json, os, shutil, subprocess, sys

head = subprocess.check_output(["git", "-C", "/repo", "rev-parse", "--short", "HEAD"]).decode().strip()
for line in open(sys.argv[1]):
    line = line.rstrip("\n")
    if not line or line.startswith("#"):
        continue
    tag, k, prop, check_exit, caught_by, breaks, needs = line.split("\t")
    rec_path = "/tmp/proc_seed_%s_%s.json" % (tag, k)
    if not os.path.exists(rec_path):
        print("skip %s-%s: not verified (no record)" % (tag, k)); continue
    rec = json.load(open(rec_path))
    if rec["demo_without"] != 0 or rec["demo_with"] == 0 or rec["suite_lost"]:
        print("skip %s-%s: demo/suite verification failed: %r" % (tag, k, rec)); continue
    existing = [int(os.path.basename(d).split("-")[1]) for d in glob.glob("/verif/seeded/%s-*" % prop)]
    done = [d for d in glob.glob("/verif/seeded/%s-*/meta.json" % prop) if json.load(open(d)).get("round3_tag") == "%s-%s" % (tag, k)]
    if done:
        dst = os.path.dirname(done[0])
    else:
        dst = "/verif/seeded/%s-%d" % (prop, max(existing + [0]) + 1)
    os.makedirs(dst, exist_ok=True)
    shutil.copy("/tmp/seed3/%s.out/patch_%s.diff" % (tag, k), os.path.join(dst, "patch.diff"))
    shutil.copy("/tmp/seed3/%s.out/demo_%s.py" % (tag, k), os.path.join(dst, "demo.py"))
    meta = {"property": prop, "breaks": breaks, "needs_to_manifest": needs, "repo_head_when_verified": head, "round": 3, "round3_tag": "%s-%s" % (tag, k),
            "what_was_run": ["git apply patch.diff in a scratch worktree of /repo (tools/proc_seed.py)",
                             "demo.py with the change: exit %d; without: exit %d" % (rec["demo_with"], rec["demo_without"]),
                             "pinned test-suite command in the scratch worktree with the change applied: all 262 stable_pass tests still pass",
                             "the check with the loader pointed at the scratch worktree (SX_REPO_SRC; tools/try_seed_wt.sh / proc_seed.py) -> exit %s" % check_exit],
            "quick_check_exit": int(check_exit), "caught_by": caught_by}
    json.dump(meta, open(os.path.join(dst, "meta.json"), "w"), indent=1)
    print("kept", dst, "<-", tag, k)
