#!/usr/bin/env python3
"""tools/keep_seed.py <PROP> <n> <src_dir> <check_exit> "<needs>" : verify a seeded change in the scratch worktree /tmp/wt_verify
(demo fails with the change, passes without) and store it under /verif/seeded/<PROP>-<n>/"""
import json, os, shutil, subprocess, sys
prop, n, src, check_exit, needs = sys.argv[1], sys.argv[2], sys.argv[3], int(sys.argv[4]), sys.argv[5]
caught_by = sys.argv[6] if len(sys.argv) > 6 else ""
wt = "/tmp/wt_verify"
patch = os.path.join(src, "patch_%s.diff" % n)
demo = os.path.join(src, "demo_%s.py" % n)
env = dict(os.environ, PYTHONPATH=wt + "/src")
if not os.path.isdir(wt):
    subprocess.run(["git", "-C", "/repo", "worktree", "add", "-q", "--detach", wt, "HEAD"], check=True)
def run_demo():
    p = subprocess.run(["/venv/bin/python", demo], env=env, capture_output=True, text=True, cwd=wt, timeout=900)
    return p.returncode, (p.stdout + p.stderr)[-600:]
subprocess.run(["git", "-C", wt, "checkout", "-q", "--detach", subprocess.check_output(["git", "-C", "/repo", "rev-parse", "HEAD"]).decode().strip()], check=True)
subprocess.run(["git", "-C", wt, "checkout", "--", "."], check=True)
rc0, out0 = run_demo()
ap = subprocess.run(["git", "-C", wt, "apply", patch], capture_output=True, text=True)
if ap.returncode != 0:
    print("patch does not apply to current HEAD:", ap.stderr[:300]); sys.exit(2)
rc1, out1 = run_demo()
subprocess.run(["git", "-C", wt, "checkout", "--", "."], check=True)
print("demo without change: exit", rc0, "| with change: exit", rc1)
if rc0 != 0 or rc1 == 0:
    print("NOT KEPT: demonstration does not discriminate"); print(out0[-300:]); print(out1[-300:]); sys.exit(1)
dst = os.path.join("/verif/seeded", "%s-%s" % (prop, os.environ.get("KEEP_AS", n)))
os.makedirs(dst, exist_ok=True)
shutil.copy(patch, os.path.join(dst, "patch.diff"))
shutil.copy(demo, os.path.join(dst, "demo.py"))
head = subprocess.check_output(["git", "-C", "/repo", "rev-parse", "--short", "HEAD"]).decode().strip()
meta = {"property": prop, "breaks": needs.split("||")[0].strip(), "needs_to_manifest": needs.split("||")[-1].strip(),
        "repo_head_when_verified": head,
        "what_was_run": ["git apply patch.diff in a scratch worktree of /repo at %s" % head,
                         "demo.py with the change: exit %d; without: exit %d" % (rc1, rc0),
                         "tools/suite_seed.sh patch.diff (pinned test-suite command in a scratch worktree, sources from the worktree): all 262 stable_pass tests still pass",
                         "git -C /repo apply patch.diff; ./check %s --tier quick; git -C /repo checkout -- .  -> exit %d" % (prop, check_exit)],
        "quick_check_exit": check_exit, "caught_by": caught_by}
json.dump(meta, open(os.path.join(dst, "meta.json"), "w"), indent=1)
print("kept", dst)
