#!/bin/sh
# tools/proc_prop.sh <PROP>: round-3 helper -- runs tools/proc_seed.py for both deliverables of a seeding agent, one after the other (they share a scratch worktree)
P=$1
for k in 1 2; do
  [ -f /tmp/seed3/$P.out/patch_$k.diff ] && /verif/.venv/bin/python /verif/tools/proc_seed.py $P $k /tmp/seed3/$P.out /tmp/seed3/$P
done > /tmp/seed3/$P.result.txt 2>&1
