#!/bin/sh
# tools/proc_prop.sh <TAG>: round-3 helper -- runs tools/proc_seed.py for both deliverables of a seeding agent (TAG = property id, optionally followed by
# a letter for a second agent on the same property), one after the other (they share a scratch worktree)
T=$1
P=$(echo $T | cut -c1-3)
for k in 1 2; do
  [ -f /tmp/seed3/$T.out/patch_$k.diff ] && SEED_TAG=$T /verif/.venv/bin/python /verif/tools/proc_seed.py $P $k /tmp/seed3/$T.out /tmp/seed3/$T
done > /tmp/seed3/$T.result.txt 2>&1
