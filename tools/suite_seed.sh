#!/bin/sh
# tools/suite_seed.sh <patch.diff>: apply a seeded change in the scratch worktree /tmp/wt_verify, run the pinned test-suite command there
# (sources taken from the worktree) and report the stable_pass tests that no longer pass.
PATCH=$1
WT=/tmp/wt_verify
[ -d $WT ] || git -C /repo worktree add -q --detach $WT HEAD || exit 9
cd $WT || exit 9
git checkout -q --detach $(git -C /repo rev-parse HEAD) && git checkout -- . || exit 9
git apply "$PATCH" || { echo "patch does not apply"; exit 9; }
X=$(mktemp /tmp/junit.XXXXXX.xml)
PYTHONPATH=$WT/src /venv/bin/python -m pytest -q -p no:cacheprovider --timeout=900 --continue-on-collection-errors --junitxml=$X > /tmp/suite_seed.log 2>&1
git checkout -- .
/venv/bin/python - "$X" <<'PY'
import json, sys, xml.etree.ElementTree as ET
want = set(json.load(open("/root/.vp/BASELINE.json"))["stable_pass"])
ok = set()
for tc in ET.parse(sys.argv[1]).getroot().iter("testcase"):
    if not any(c.tag in ("failure", "error", "skipped") for c in tc):
        ok.add("%s::%s" % (tc.get("classname"), tc.get("name")))
missing = sorted(want - ok)
print("stable_pass %d, still passing %d, lost %d" % (len(want), len(want & ok), len(missing)))
for m in missing[:10]:
    print("  LOST", m)
sys.exit(1 if missing else 0)
PY
rc=$?
rm -f $X
exit $rc
