#!/bin/sh
# tools/suite_through_loader.sh: run the pinned test-suite with pyimpspec loaded through the sx loader (AST rewrite + shims, no symbolic engine
# active) and report which stable_pass tests no longer pass -- the validation of "with no symbolic operand every helper falls through to ordinary Python".
cd /repo || exit 9
X=$(mktemp /tmp/junit_loader.XXXXXX.xml)
PYTHONPATH=/verif PYTHONHASHSEED=0 /verif/.venv/bin/python - "$X" > /tmp/suite_through_loader.log 2>&1 <<'PY'
import sys
sys.setrecursionlimit(100000)
from sx import loader
loader.install()
import pytest
sys.exit(pytest.main(["-q", "-p", "no:cacheprovider", "-p", "no:xdist", "--timeout=900", "--continue-on-collection-errors", "--junitxml=" + sys.argv[1]]))
PY
/venv/bin/python - "$X" <<'PY'
import json, sys, xml.etree.ElementTree as ET
want = set(json.load(open("/root/.vp/BASELINE.json"))["stable_pass"])
ok = set()
for tc in ET.parse(sys.argv[1]).getroot().iter("testcase"):
    if not any(c.tag in ("failure", "error", "skipped") for c in tc):
        ok.add("%s::%s" % (tc.get("classname"), tc.get("name")))
missing = sorted(want - ok)
print("through the loader: stable_pass %d, still passing %d, lost %d" % (len(want), len(want & ok), len(missing)))
for m in missing[:10]:
    print("  LOST", m)
sys.exit(1 if missing else 0)
PY
rc=$?
rm -f $X
exit $rc
