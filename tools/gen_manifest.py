#!/usr/bin/env python3
"""Writes /verif/MANIFEST.json from the table below (kept in one place so that it stays valid)."""
import json
import os

ROOT = os.path.dirname(os.path.dirname(os.path.abspath(__file__)))

TECH = "bounded symbolic execution of the real Python source (sx: replay-based DSE) with z3 deciding every path and assertion query"

CLAIMED = {
    "C06": {
        "category": "other",
        "text": "Table-level round trip on the real _detect_columns, _extract_data, _split_sweeps, dataframe_to_data_sets and DataSet.to_dataframe over a "
                "stand-in table: every documented alias of every quantity x leading hyphen/minus sign x three letter cases x unit suffixes x all six "
                "column orders (cartesian and polar layouts) must be detected in its column with its sign flag; with all cell values symbolic, 1..2 (3) "
                "consecutive sweeps of symbolic frequencies (ascending or descending, a single sweep may have one point), sign-inverted imaginary/"
                "phase columns, degrees or radians, numeric cells or decimal-comma text cells (none / all / single columns), the returned data sets carry exactly the written frequencies and impedances with the documented "
                "sign, one per sweep, in order; the table emitted by to_dataframe parses back to the same spectrum. Instrument layouts .i2b .P00 .dfr .dta (also drift-corrected "
                ".dta): a file in the layout of the repository's sample file is written with one distinct sentinel numeral per number (decimal point or comma, three numeral styles, "
                "optional trailing empty line), the real line parser reads it, each sentinel entering the table becomes its symbolic real, and z3 decides whether the returned "
                "data sets can differ from the written spectrum (1..3 (4) points, either order).",
        "design_ref": "DESIGN.md section 4, C06",
        "note": "PARTIAL: the text layer (pandas.read_csv/to_csv, separator sniffing, the characters of decimal-comma numerals), the pandas-based instrument layouts (.mpt .z) "
                "and the CLI table are not claimed; in the .i2b .P00 .dfr .dta layouts the digits of numerals are not modelled (sentinel numerals); cmath.rect is a contract stub; headers are alias + a suffix "
                "from a fixed list",
    },
    "C07": {
        "category": "other",
        "text": "Spectra are generated symbolically by the real model circuit (_generate_circuit + _update_circuit on a symbolic variable "
                "vector, real Circuit.get_impedances over symbolic frequencies and time constants). The real _complex_test/_real_test/"
                "_imaginary_test of the least-squares implementation (24 variant x representation x C x L combinations) and of the matrix-"
                "inversion implementation (12) then run with lstsq/pinv/inv replaced by their contract; the stub asks z3, row by row, whether "
                "A.x* can differ from the right-hand side the code built (every design-matrix column and sign), and the fitted circuit is "
                "compared with the spectrum (zero residuals) and the generating parameters. num_RC=2 (3), 2 (3) frequencies, all values symbolic. Non-linear implementation (8 "
                "combinations): the real cnls._test_wrapper with lmfit.minimize replaced by the contract of a least-squares minimiser -- the stub names the generating values as the "
                "zero and z3 decides whether the residual function the code handed over (real _complex_residual, _to_lmfit/_from_lmfit) can be non-zero there; the returned circuit "
                "must reproduce the spectrum.",
        "design_ref": "DESIGN.md section 4, C07",
        "note": "linear-solver contract (exact minimum-norm solution of a consistent system); floats as reals; matrix-inversion stages that use "
                "1e-18/1e18 placeholders are executed but not compared; cnls (lmfit) and time-constant generation are outside",
    },
    "C08": {
        "category": "other",
        "text": "The real result-assembly code of evaluate_log_F_ext (least-squares and matrix-inversion kinds, both representations), perform_zhit "
                "(both representations, incl. the offset shift of admittance data with a negative real part) and fit_circuit (_fit_process, "
                "_to_lmfit/_from_lmfit, _residual, _convert_intermediate_result, _extract_parameters) runs on a data set whose unmasked and masked "
                "points are symbolic, with the numerical stages stubbed by arbitrary symbolic outputs. z3 decides whether frequencies can differ "
                "from the unmasked input frequencies, residuals from (Z_data-Z_model)/|Z_data|, pseudo chi-squared from the sum of squared residual "
                "moduli, reported impedances from the attached circuit's impedance; the solver terms of all result fields are scanned for variables "
                "of masked points (non-interference); the input data set and circuit must be unchanged. For fit_circuit also: values within limits, "
                "fixed parameters unchanged, constraint expressions hold, parameter table equals the returned circuit; the same when the optimiser's "
                "last evaluation is not at the point it reports (probe) and when several methods run one after the other in the calling process "
                "(every fit starts from the values passed in; table, chi-squared and circuit belong to the same fit).",
        "design_ref": "DESIGN.md section 4, C08",
        "note": "numerical stages are stubs (lmfit.minimize by its contract); DRT result classes are not covered; 3-4 unmasked + 1-2 masked points",
    },
    "C09": {
        "category": "other",
        "text": "Metamorphic relations decided by z3 on the real code with symbolic spectra and symbolic positive scale factors: design matrices at "
                "(s*w, tau/s) equal those at (w, tau) up to one positive factor per column (least squares and inversion variants, all 24+4 "
                "option combinations), right-hand sides scale with c or 1/c, |X|-scaled matrices rescale inversely with an invariant right-hand "
                "side, the circuit of the rescaled variables has the same immittance at the rescaled frequency and time constants scaled by 1/s, "
                "reversed point order only permutes rows, residuals / Boukamp weights / pseudo chi-squared are invariant, and so are the pseudo "
                "chi-squared and residuals reported by the exploratory driver for every test kind in both representations.",
        "design_ref": "DESIGN.md section 4, C09",
        "note": "least-squares equivariance contract for the linear solver; time constants of the rescaled problem assumed tau/s; floats as reals",
    },
    "C11": {
        "category": "other",
        "text": "The analytic core of Z-HIT on the real code with symbolic ln(omega) values, phase coefficients, weights, data and scale factor: "
                "_reconstruct with quadrature/spline replaced by the exact integral/derivative of a given phase function returns, for a constant "
                "phase, (2/pi)*phi*(ln w_i - ln w_0) in both representations (exact reconstruction for R, C, L, Q, W) and, for a linear phase, "
                "adds gamma*dphi/dln(w) with gamma = -pi/6; _offset_residual gives 0 for every point of weight 0 and weight*(rec+offset-ln|X|)^2 "
                "otherwise; weights without a positive entry or with a negative one are refused with ZHITError before the minimiser runs; "
                "_adjust_offset with the minimiser replaced by the weighted least-squares offset scales the reconstruction by c when the data are "
                "scaled by c; the retry loop around quad obtains the integral when quad first demands looser tolerances / more subdivisions "
                "(IntegrationWarning); the objective handed to the offset minimiser is the weighted sum over all points; the pure-Python smoothers "
                "(modified sinc, Whittaker-Henderson) leave symbolic linear data a+b*i unchanged (1e-9 relative). smooth.*.twice: the same filter twice in one process obeys the same law; window.custom: custom weights are the only weights used whatever window name accompanies them.",
        "design_ref": "DESIGN.md section 4, C11",
        "note": "PARTIAL: the Savitzky-Golay (scipy) and LOWESS (statsmodels) smoothers, _generate_weights, real splines/quadrature "
                "and the 'few percent' clause for RC/RQ ladders are not claimed; exp/ln/rect are uninterpreted with the functional equations "
                "instantiated on the terms that occur",
    },
    "C12": {
        "category": "other",
        "text": "The real fit_circuit, _fit_process, _to_lmfit, _from_lmfit, _residual, _convert_intermediate_result and _extract_parameters run on "
                "circuits (R(RC), RQ, with and without a constraint expression) whose start values, limits (finite/infinite) and fixed flags are "
                "symbolic, around a contract stub of lmfit.minimize (varied parameters end anywhere inside [min,max], fixed keep their value, expr "
                "follow their expression). z3 decides whether a returned value can leave its limits, a fixed parameter can change, a constraint "
                "expression can fail, the parameter table can disagree with the returned circuit, or the circuit passed in can be modified; a "
                "start value outside its limits is refused before the optimiser runs; among 3 methods (each succeeding or failing, symbolic "
                "distinct chi-squared) the successful fit with the smallest pseudo chi-squared is returned, serially and in parallel; exactly the free "
                "parameters of the circuit passed in are handed to the optimiser as varying (incl. a parameter fixed by default that was made free); "
                "several methods in one process start from the same values. fit.RR.multi.expr: a constraint expression with two methods in the calling process: the caller's constraint dictionary is untouched and every combination gets the same free and constrained parameters.",
        "design_ref": "DESIGN.md section 4, C12",
        "note": "PARTIAL: recovery of the generating parameters / vanishing chi-squared on noise-free data is optimiser behaviour and is not claimed; "
                "lmfit is a contract stub; leastsq/boukamp only in the constraint obligations",
    },
    "C13": {
        "category": "other",
        "text": "Algebra of the TR-NNLS method on the real code with symbolic frequencies, time constants, spectra, regularisation parameter and scale "
                "factors (scipy nnls = deterministic uninterpreted function with g >= 0): each column of _generate_A_matrix is delta_ln_tau times the "
                "real (minus imaginary) part of a unit RC element at that time constant; _generate_model_impedance equals R_inf + R_pol*A.g in the "
                "fitted part and copies the other part; through the whole calculate_drt_tr_nnls driver, scaling Z by c leaves the regularised "
                "system unchanged, scales gamma by c and leaves tau unchanged, scaling f by s scales tau by 1/s and leaves gamma unchanged; gamma >= 0 "
                "when the polarisation resistance is positive; R_pol > 0 for R0 plus one or two RC elements with positive resistances; with the "
                "lambda search replaced by 'evaluate the real objective at two symbolic trial values, return a symbolic lambda' (L-curve and custom "
                "routes) the result equals the fixed-lambda result; m(RQ)-fit's _calculate_tau_gamma is the sum of each parallel element's own "
                "distribution (Gaussian at R*C, RQ distribution at (R*Y)^(1/n)) in either order.",
        "design_ref": "DESIGN.md section 4, C13",
        "note": "PARTIAL: area = resistance and peak positions of an actual NNLS solution, the lambda selection heuristics, the Loewner method, the fitting step of m(RQ)-fit, BHT and "
                "TR-RBF are not claimed (nnls/SVD/transcendental integrals have no encoding within reach)",
    },
    "C14": {
        "category": "model_checking",
        "text": "Inductive step over the parameter state machine: from every state satisfying the representation invariant "
                "(symbolic values, finite/infinite limits, fixed flags; built through the public setters) one call of "
                "set_values/set_lower_limits/set_upper_limits/set_fixed/set_label/reset_parameter(s)/copy/deepcopy with symbolic "
                "arguments (finite, +-inf, nan, non-numeric; keyword, positional, odd and duplicate forms) is executed symbolically on "
                "the real Element/Container code; z3 decides on every feasible path whether the post-state can differ from a dictionary "
                "reference model, whether lower<upper can be lost, and whether another instance or the class defaults can change. "
                "Holds for all values within the bound (<=2 key/value pairs per call, classes R C Q [+Tlm L W], histories <=2/3).",
        "design_ref": "DESIGN.md section 4, C14",
        "note": "floats as reals; labels from a concrete list; sx engine/loader and the reference model are trusted; counterexamples "
                "are replayed on the plain library before being reported",
    },
    "C01": {
        "category": "other",
        "text": "The real Series._impedance, Parallel._impedance, _calculate_impedances, Connection.get_impedances and Circuit.__init__/"
                "get_impedances are executed symbolically over stub leaves whose impedance at each frequency index is a symbolic non-zero "
                "complex number, 0 or +inf (chosen by solver-driven exploration), with symbolic positive frequencies. On every feasible "
                "path the result is compared with the point-wise series/parallel law written directly over the leaf variables (open branch "
                "contributes nothing, shorted branch shorts the connection, all-open is open / InfiniteImpedance at the API); equality of the "
                "complex rational functions is decided by normalisation + z3. Also: array vs one-frequency-at-a-time evaluation, the three "
                "dispatch branches (element, container, connection), Circuit(Series|Parallel|Element|list); construction routes (objects vs "
                "CircuitBuilder vs serialise/parse) for a general transmission line with 5 sub-circuit shapes at a symbolic frequency. Exhaustive "
                "for every nest of <=3 leaves, depth <=2, 2 (3) frequencies. Round 3: the sub-circuit forms include short and open, and the object route also goes through Container.set_subcircuits (keyword and pair form).",
        "design_ref": "DESIGN.md section 4, C01",
        "note": "leaves opaque (element formulas are C02); a branch is open at all frequencies or none (mixed: result, if any, must obey the law; "
                "only InfiniteImpedance may be raised); admittances that cancel exactly are cut away; floats as reals",
    },
    "C02": {
        "category": "translation_validation",
        "text": "For every registered non-container element the real _impedance (numpy code on the sx shim) and the real to_sympy() "
                "expression (the _equation string through sympify) are both executed on symbolic parameters (anywhere in the limit box) and "
                "a symbolic frequency f>0 and become complex rational functions N/D over shared uninterpreted atoms (non-integer powers, "
                "tanh, sinh, cosh); equality is decided by polynomial-identity normalisation and z3 (unsat of N1*D2-N2*D1 != 0). The "
                "same is done for the general transmission line element in all 243 open/short/finite sub-circuit configurations "
                "(_impedance vs _sympy; rejected by both or by neither) and for Series/Parallel nests over opaque leaves "
                "(_impedance vs to_sympy). A sat answer is confirmed numerically on the plain library before it is reported. substituted.*: Circuit.to_sympy(substitute=True) of [X] / [R X], X labelled or not, leaves no variable but f; for R, C, L it equals the numeric impedance at a symbolic frequency.",
        "design_ref": "DESIGN.md section 4, C02",
        "note": "floats as reals; transcendental functions uninterpreted with listed axioms (equality modulo field arithmetic and congruence); "
                "divisions by zero are cut away (counted); f->0 / f->inf limits (sympy.limit) are outside the claim",
    },
    "C03": {
        "category": "other",
        "text": "A grammar-directed generator in the harness owns the intended syntax tree; shapes, element classes, labels and every "
                "alternative spelling (parameter omitted / value / +lower / +lower+upper / //upper / percentage limits / inf limits, fixed marker "
                "F|f|none, implicit vs explicit outer series, version header, blanks, sub-circuits unspelled / open|inf / short|zero / bracketed / "
                "bare element list) are explored exhaustively by solver-driven choices while every number is a symbolic real constrained only by "
                "the validity predicate. The text (library emitter or harness printer, distinct sentinel numerals) is tokenised by the real "
                "tokenizer, numerals are replaced by the symbolic reals and the real Parser runs; z3 decides per path whether the parsed "
                "circuit can differ from the intended tree (structure up to merging, element order, labels, fixed flags, values, limits in any "
                "order relative to class defaults), and whether re-serialisation or a deep copy can print a different text. Labels: every "
                "ASCII label of <=2 (3) symbolic characters accepted by the real set_label must be read back from 'R{:label}'.",
        "design_ref": "DESIGN.md section 4, C03",
        "note": "number formatting abstracted (printed numbers are arbitrary reals keeping lower<=value<=upper, lower<upper); trees <=3 leaves, "
                "depth <=2; two known findings about labels are listed in known_findings.json; the builder goes through the same emitter+parser",
    },
    "C04": {
        "category": "other",
        "text": "Two composing obligations on the real code, decided by z3: (1) inductive tokenizer step -- from every tokenizer state (previous "
                "token none/colon/lcurly/comma/other) one Tokenizer.main_loop call on an arbitrary remaining input of <=5 (7) symbolic characters "
                "of any code point either raises UnexpectedCharacter/ValueError only, or consumes >=1 character and appends <=1 token satisfying "
                "the token invariants; since process() is `while chars: main_loop()` this covers inputs of any length whose tokens fit the bound. "
                "(2) the real Parser.process over lazy token lists: every list of <=4 (6) tokens (16 token classes as solver variables decided "
                "only when the parser inspects them, identifier texts from a vocabulary, numbers symbolic), plus 8 grammar-derived valid codes "
                "cut after every prefix with 0..1 (2) positions replaced by arbitrary tokens: only ParsingError/ValueError escape and accepted "
                "lists give well-formed, serialisable circuits. Counterexamples are rendered to text and replayed through parse_cdc. empty: eight element-free texts; what is accepted serialises (plain and with the version header) to texts that are accepted again.",
        "design_ref": "DESIGN.md section 4, C04",
        "note": "numerals denote finite reals; ASCII classification only for symbolic characters; identifier vocabulary and label list are finite; "
                "recursion depth and tokens longer than the bound are outside",
    },
    "C05": {
        "category": "model_checking",
        "text": "The real DataSet constructor and operations are executed symbolically: frequencies (distinct, monotonic, either "
                "direction), complex impedances, mask key sets and flags, cut-offs and subtracted values are z3 variables. After "
                "construction and after every step of each operation history (set_mask, low_pass, high_pass, subtract_impedances, "
                "to_dict->json->from_dict incl. twice and without optional keys, duplicate, average) z3 decides per path whether any "
                "public view (full / unmasked / masked, mask) can differ from a list-of-triples reference model, whether the full view "
                "can fail to be descending, whether ascending+mask and descending+mirrored-mask can mask different points, and whether "
                "the caller's mask dictionary can change. Exhaustive within n<=3 (4) points and histories <=2 (3).",
        "design_ref": "DESIGN.md section 4, C05",
        "note": "monotonic input assumed (as the property states); floats as reals; json modelled structurally in the symbolic run and "
                "real json in the replay; sx engine/shim and reference model trusted",
    },
    "C15": {
        "category": "model_checking",
        "text": "(a) Over every ASCII string of <=3 (4) symbolic characters the real _validate_element_symbol accepts exactly [A-Z][a-z0-9_]* and the "
                "real tokenizer scans exactly such a string as one element identifier whatever follows (longest match: L, La, Ls stay distinct). "
                "(b) Every history of 2 (3) operations out of 11 kinds (register valid / second / inconsistent / duplicate-symbol / invalid-symbol "
                "definitions with the private flag, remove_elements, reset in its three flag combinations, Resistor.set_default_values with a "
                "symbolic value, reset_default_parameter_values), followed by reset() and a fresh registration, runs on the real process-global "
                "registry; after every step the get_elements views, the built-in classes/definitions/defaults and the parser's acceptance of "
                "registered vs unregistered symbols are compared with a dictionary model and the import-time snapshot. Histories include registering under the symbol of a private built-in (refused) and changing / resetting the defaults of a private built-in.",
        "design_ref": "DESIGN.md section 4, C15",
        "note": "user classes are small resistor-like elements; registry restored between paths by direct state restoration; re-registering a "
                "built-in class under a new symbol is outside",
    },
    "C16": {
        "category": "other",
        "text": "Tree shapes, element types (incl. the container element with nested sub-circuits), labels and fixed flags are enumerated by solver-"
                "driven choices and every parameter carries its own symbolic value acting as a label of its element. The real identifier "
                "generation, get_element_name, validate_circuit, generate_fit_identifiers, _to_lmfit/_from_lmfit, _extract_parameters (also with "
                "user constraint variables named like identifiers), to_parameters_dataframe and Circuit.to_sympy run on it; z3 decides whether "
                "identifiers can fail to be a bijection / gap-free, and whether any value reported under a name can be anything but the value of "
                "the element that name denotes (for to_sympy: evaluating the expression with each variable bound to its element's value must "
                "give the numeric impedance). edit: identifiers, names, fit identifiers and expression variables after a circuit was looked up and then edited in place (same-type replacement, append, remove, insert).",
        "design_ref": "DESIGN.md section 4, C16",
        "note": "lmfit.Parameters/MinimizerResult and pandas.DataFrame replaced by name->value stand-ins; <=3 (4) elements; one known finding "
                "(variable naming of equally labelled elements of different types)",
    },
    "C17": {
        "category": "other",
        "text": "Schedules are solver variables: multiprocessing.Pool is a stub whose imap_unordered delivers the workers' results in a permutation "
                "chosen by solver-driven exploration (every arrival order is a path) and whose imap/map keep submission order; worker functions are "
                "deterministic stubs with symbolic, pairwise distinct pseudo chi-squared values (log monotone). The real collection/selection code "
                "of perform_zhit (both unordered stages, 4 candidates), fit_circuit (3 methods succeeding or failing) and evaluate_log_F_ext (10 "
                "evaluations) must return the same winner with the same numbers for every arrival order and for num_procs = 1 vs > 1; the real "
                "_fit_process and the real _adjust_offset run in the calling process vs through a pool that pickles (deep-copies) every task; "
                "_use_cnls' early stop returns the same fits for every arrival order (13-14 fits, bounded overtaking); _add_noise seeds its "
                "generator with seed mod 2**32 for every integer seed.",
        "design_ref": "DESIGN.md section 4, C17",
        "note": "PARTIAL: real process scheduling, BLAS threading and the bit streams of numpy's RandomState are not covered; ties "
                "between sort keys are outside the claim",
    },
    "C18": {
        "category": "model_checking",
        "text": "(a) Lemma, fully symbolic: for every 0<=i<=total, total>=1, 0<N<=100, force flag and previous state (-1 or any value in [0,1]) the "
                "real _update_every_N_percent reports only fractions within [0,1] with a message and leaves its state at -1 or within [0,1]; "
                "Progress.increment raises iff the count exceeds the total. (b) The real perform_zhit driver over the product of smoothing (5+auto+"
                "unknown) x interpolation (4+auto+unknown) x window (auto/named/unknown) x custom weights x representation x num_procs x symbolic "
                "num_points/polynomial_order, and the real evaluate_log_F_ext driver over 7 test kinds (+unknown) x num_RCs x options x "
                "num_F_ext_evaluations (negative, zero, positive, too few) x limits x located minima, run with their numerical kernels stubbed: "
                "(c) the real fit_circuit driver over 9 method x 8 weight spellings x num_procs with the worker stubbed; "
                "an option combination is refused by TypeError/ValueError before the first kernel runs (or by the library's own error type) or "
                "completes; the progress count never exceeds the precomputed total and every callback fraction lies within [0,1]. zhit.smooth.short.*: the real modified-sinc and Whittaker-Henderson smoothers complete on spectra with fewer points than their window.",
        "design_ref": "DESIGN.md section 4, C18",
        "note": "numerical kernels replaced by shape-correct stubs (failures inside real numerics are outside); the calculate_drt "
                "drivers are not covered; option products are enumerated by solver-driven choices (bounded exhaustive), only the lemma is fully symbolic",
    },
    "C19": {
        "category": "other",
        "text": "The pure-Python glue of the command-line interface run under the symbolic executor. Mock-data specifiers '<ID:key=value,...>': the "
                "characters of the identifier (bracket-free text, or braces holding arbitrary characters incl. colons) and of the value numerals are z3 "
                "variables; the real _parse_identity / get_mock_data / get_mock_circuits / parse_inputs must hand generate_mock_data exactly the identifier "
                "and the float/int keyword arguments written in the specifier, and refuse a non-numeral value (ValueError) or an undocumented keyword "
                "(KeyError). 'parse': the real cli.parse.command + apply_filters on symbolic spectra with symbolic low-/high-pass cut-offs and every set of "
                "excluded indices: the table handed to the formatter holds exactly the points the API sequence low_pass/high_pass/set_mask leaves "
                "unmasked, with the API's numbers; an empty selection is refused. 'fit' and 'drt --plot-overlay': with fit_circuit / calculate_drt "
                "replaced by recorders, every call (refinements included) carries the command-line settings (symbolic max_nfev, num_procs, timeout, "
                "lambda, threshold), refinements chain on the previous result, and the tables printed for a spectrum come from its own / the final result. 'circuit --simulate': "
                "the real simulate_spectra / individual_plots with circuits of symbolic parameter values, a symbolic frequency range / density and 0..1 marked frequencies: every "
                "circuit is simulated by the API on the grid _interpolate returns for exactly the command-line range, the table handed to the formatter and the marked points are "
                "that circuit's API impedances, labelled with its code.",
        "design_ref": "DESIGN.md section 4, C19",
        "note": "PARTIAL: text formatting (pandas), argparse, files, matplotlib, the numerical pipelines and the commands test / zhit / drt without overlay are outside; "
                "numerals are uninterpreted numbers whose syntax is decided exactly on the symbolic characters",
    },
    "C20": {
        "category": "other",
        "text": "Circuit shapes (every series/parallel nest of <=3 (4) leaves within depth 2 (3), direct construction incl. single-item connections, "
                "every registered element type at the leaves, labelled/unlabelled mixes) are enumerated exhaustively by solver-driven choices. The "
                "real to_circuitikz runs with node_width and node_height as positive z3 reals, so its layout comparisons are solver-decided "
                "branches; on every path: no exception, balanced begin/end, exactly one to[...] component per element of the connections (a "
                "container counts once), labelled as get_element_name names it. to_sympy (variables = one per parameter; only f after "
                "substitution), to_latex and to_drawing are executed concretely on every explored shape. The shape part is bounded exhaustive "
                "enumeration; the solver's share is branch feasibility and layout arithmetic. open: nests in which one resistor of a parallel connection has R = inf (set through the API) and which can still be simulated.",
        "design_ref": "DESIGN.md section 4, C20",
        "note": "default parameter values; one known finding (single-item parallel connection built directly); rendering by LaTeX/matplotlib not checked",
    },
}

NOT_APPLICABLE = {
    "C10": "statistical statement about an optimisation pipeline on random data (noise estimate 'of the order of' the injected one over seeds); curve_fit/lmfit/RNG have no encoding within reach and an acceptance band is not an SMT assertion",
}

PENDING_REASON = "not claimed yet: the solver-based harness for this property has not been built/validated in this tree (see DESIGN.md section 4 for the planned obligations)"

ALL = ["C%02d" % i for i in range(1, 21)]
UNSIZED_THOROUGH = {"C03", "C04", "C05", "C08", "C12"}


def main():
    checks = []
    for pid in ALL:
        if pid not in CLAIMED:
            continue
        c = CLAIMED[pid]
        checks.append({
            "property_id": pid,
            "quick_cmd": "./check %s --tier quick" % pid,
            "thorough_cmd": "./check %s --tier thorough" % pid,
            "evidence_file": "evidence/%s.json" % pid,
            "replay_cmd_template": "./check %s --replay {path}" % pid,
            "engine": "sx",
            "level_claimed": {"category": c["category"], "text": c["text"], "design_ref": c["design_ref"]},
            "level_note": c["note"] + ("" if pid not in UNSIZED_THOROUGH else "; THOROUGH TIER: the deeper bounds written in the check module were not seen to "
                                       "finish inside the budget on this tree, so the thorough command explores the quick bounds again (checks/main.py THOROUGH_SIZED)"),
            "technique": c.get("technique", TECH),
        })
    na = []
    for pid in ALL:
        if pid in CLAIMED:
            continue
        na.append({"property_id": pid, "reason": NOT_APPLICABLE.get(pid, PENDING_REASON)})
    man = {
        "version": 1,
        "setup_cmd": "./setup.sh",
        "hooks": {
            "guard": "PYIMPSPEC_VERIF",
            "enable": "none needed: the sx loader instruments pyimpspec at import time from /repo/src; no hook commit exists in /repo",
            "baseline_off_cmd": "cd /repo && /venv/bin/python -m pytest -ra -q -p no:cacheprovider --timeout=900 --continue-on-collection-errors",
            "source_commits": [],
            "add_only": True,
        },
        "engines": [{
            "name": "sx",
            "path": "sx/",
            "serves_properties": sorted(CLAIMED),
            "kind_free_text": "replay-based dynamic symbolic executor for the real pyimpspec source (AST-rewriting import hook, numpy shim, "
                              "complex rational-function arithmetic, uninterpreted transcendental functions) over z3 5.1; exhaustive path "
                              "enumeration within stated bounds; counterexamples replayed on the plain library",
        }],
        "checks": checks,
        "not_applicable": na,
        "notes": "Exit codes of ./check: 0 held, 1 violation (replayed), 2 inconclusive, 3 harness error. Known findings: known_findings.json. "
                 "Bounds given as 'a (b)' or 'a -> b' in a check's text are quick (thorough); see DESIGN.md section 8 for which thorough tiers are sized.",
    }
    with open(os.path.join(ROOT, "MANIFEST.json"), "w") as fp:
        json.dump(man, fp, indent=1)
    print("wrote MANIFEST.json: %d checks, %d not_applicable" % (len(checks), len(na)))


if __name__ == "__main__":
    main()
