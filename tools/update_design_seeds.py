#!/usr/bin/env python3
"""rewrite the generated seed table in DESIGN.md (between the seed-table markers)"""
import subprocess
p = "/verif/DESIGN.md"
s = open(p).read()
a, b = "<!-- seed-table:begin -->", "<!-- seed-table:end -->"
tab = subprocess.check_output(["python3", "/verif/tools/seed_table.py"]).decode()
s = s[:s.index(a) + len(a)] + "\n" + tab + s[s.index(b):]
open(p, "w").write(s)
print("updated", tab.count("\n") - 2, "rows")
