#!/bin/sh
# runs every claimed check's quick (or given tier) command sequentially; prints a summary
cd "$(dirname "$0")/.."
TIER=${1:-quick}
for id in $(python3 -c "import json;print(' '.join(c['property_id'] for c in json.load(open('MANIFEST.json'))['checks']))"); do
  s=$(date +%s)
  ./check $id --tier $TIER > /tmp/run_all_$id.log 2>&1
  rc=$?
  e=$(date +%s)
  echo "$id rc=$rc $((e-s))s $(tail -1 /tmp/run_all_$id.log)"
done
