#!/bin/sh
# tools/try_seed.sh <PROP> <patch.diff> [extra check args]: apply a seeded change to /repo, run the quick check, undo it.
PROP=$1; PATCH=$2; shift 2
cd /repo || exit 9
git diff --quiet || { echo "repo not clean"; exit 9; }
git apply "$PATCH" || { echo "patch does not apply"; exit 9; }
cd /verif
./check $PROP "$@" > /tmp/try_seed_$PROP.log 2>&1
rc=$?
git -C /repo checkout -- .
echo "check $PROP exit=$rc"
grep -E "^(VIOLATION|KNOWN-FINDING|INCONCLUSIVE|HARNESS|  obligation|  REPRODUCED)" /tmp/try_seed_$PROP.log | cut -c1-400 | head -12
tail -1 /tmp/try_seed_$PROP.log
exit $rc
