#!/usr/bin/env python3
"""tools/proc_seed.py <PROP> <k> <src_dir> [<worktree>] [check args...]

Round-3 helper: verifies one seeded change end to end in a scratch worktree of /repo (never /repo itself) and prints one summary block:
  1. demo_<k>.py exits 0 without the change and non-zero with patch_<k>.diff applied,
  2. the pinned test-suite command (sources from the worktree) still passes every stable_pass test,
  3. ./check <PROP> --tier quick with the loader pointed at the worktree (SX_REPO_SRC) -> exit code.
Nothing is stored; tools/keep_seed3.py stores a change once the same check has been confirmed against /repo itself (tools/try_seed.sh).
"""
import json, os, subprocess, sys, time

prop, k, src = sys.argv[1], sys.argv[2], sys.argv[3]
wt = sys.argv[4] if len(sys.argv) > 4 and not sys.argv[4].startswith("-") else "/tmp/seed3/%s" % prop
extra = [a for a in sys.argv[4:] if a != wt]
patch = os.path.join(src, "patch_%s.diff" % k)
demo = os.path.join(src, "demo_%s.py" % k)
env = dict(os.environ, PYTHONPATH=wt + "/src")
tag = os.environ.get("SEED_TAG", prop)
out = {"property": prop, "k": k, "tag": tag}


def sh(*a, **kw):
    return subprocess.run(list(a), capture_output=True, text=True, **kw)


head = sh("git", "-C", "/repo", "rev-parse", "HEAD").stdout.strip()
if not os.path.isdir(wt):
    sh("git", "-C", "/repo", "worktree", "add", "-q", "--detach", wt, "HEAD")
sh("git", "-C", wt, "checkout", "-q", "--detach", head)
sh("git", "-C", wt, "checkout", "--", ".")
sh("git", "-C", wt, "clean", "-fdq", "src")


def run_demo():
    try:
        p = subprocess.run(["/venv/bin/python", demo], env=env, capture_output=True, text=True, cwd=wt, timeout=900)
        return p.returncode, (p.stdout + p.stderr)[-400:]
    except subprocess.TimeoutExpired:
        return 124, "timeout"


rc0, o0 = run_demo()
ap = sh("git", "-C", wt, "apply", patch)
if ap.returncode != 0:
    print("%s-%s: patch does not apply: %s" % (prop, k, ap.stderr[:200]))
    sys.exit(2)
files = sh("git", "-C", wt, "diff", "--name-only").stdout.split()
rc1, o1 = run_demo()
out["demo_without"], out["demo_with"], out["files"] = rc0, rc1, files
ok_demo = rc0 == 0 and rc1 != 0
# pinned suite
t0 = time.time()
xml = "/tmp/junit_%s_%s.xml" % (tag, k)
subprocess.run(["/venv/bin/python", "-m", "pytest", "-q", "-p", "no:cacheprovider", "--timeout=900", "--continue-on-collection-errors",
                "--junitxml=" + xml], env=env, cwd=wt, capture_output=True, text=True)
import xml.etree.ElementTree as ET
want = set(json.load(open("/root/.vp/BASELINE.json"))["stable_pass"])
okset = set()
try:
    for tc in ET.parse(xml).getroot().iter("testcase"):
        if not any(c.tag in ("failure", "error", "skipped") for c in tc):
            okset.add("%s::%s" % (tc.get("classname"), tc.get("name")))
except Exception as e:  # noqa
    pass
lost = sorted(want - okset)
os.path.exists(xml) and os.remove(xml)
out["suite_lost"] = lost[:5]
out["suite_s"] = round(time.time() - t0)
# the check
t0 = time.time()
ev = "/tmp/ev_seed_%s_%s" % (tag, k)
log = "/tmp/proc_seed_%s_%s.log" % (tag, k)
import fcntl
lock = open("/tmp/seed3/check.lock", "w")
fcntl.flock(lock, fcntl.LOCK_EX)          # one check (16 processes) at a time
t0 = time.time()
with open(log, "w") as fp:
    p = subprocess.run(["/verif/check", prop] + extra, env=dict(os.environ, SX_REPO_SRC=wt + "/src", SX_EVIDENCE_DIR=ev), stdout=fp, stderr=subprocess.STDOUT, cwd="/verif")
fcntl.flock(lock, fcntl.LOCK_UN)
out["check_exit"] = p.returncode
out["check_s"] = round(time.time() - t0)
sh("git", "-C", wt, "checkout", "--", ".")
lines = [l.rstrip()[:300] for l in open(log) if l.startswith(("VIOLATION", "KNOWN-FINDING", "INCONCLUSIVE", "HARNESS", "  obligation", "  REPRODUCED"))][:8]
print("== %s-%s demo(without=%d, with=%d)%s suite_lost=%d check_exit=%d (%ds) files=%s" % (
    tag, k, rc0, rc1, "" if ok_demo else " DEMO-NOT-DISCRIMINATING", len(lost), p.returncode, out["check_s"], ",".join(files)))
for l in lost[:5]:
    print("   LOST", l)
for l in lines:
    print("   ", l)
json.dump(out, open("/tmp/proc_seed_%s_%s.json" % (tag, k), "w"))
