#!/bin/sh
# Builds /verif/.venv: an overlay of /venv (the repository's interpreter and dependencies)
# plus z3-solver (and cvc5) from the offline wheelhouse.  Idempotent; offline.
set -e
cd "$(dirname "$0")"
V=.venv
if [ ! -x "$V/bin/python" ] || ! "$V/bin/python" -c "import z3, numpy, sympy" >/dev/null 2>&1; then
    rm -rf "$V"
    /venv/bin/python -m venv "$V"
    SP=$("$V/bin/python" -c "import sysconfig; print(sysconfig.get_paths()['purelib'])")
    printf '%s\n' "import site; site.addsitedir('/venv/lib/python3.12/site-packages')" > "$SP/_verif_overlay.pth"
    PIP_NO_INDEX=1 "$V/bin/python" -m pip install -q --no-index --find-links /opt/veriftools/wheels z3-solver >/dev/null
    PIP_NO_INDEX=1 "$V/bin/python" -m pip install -q --no-index --find-links /opt/veriftools/wheels cvc5 >/dev/null 2>&1 || true
fi
"$V/bin/python" -c "import z3; print('z3', z3.get_version_string())"
